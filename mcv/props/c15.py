"""C15 - mole-/mass-fraction conversion is a consistent bijection.

E1: fraction lattice (dense at both ends) x molar-mass pairs x direction, against an exact rational
reference; round trip, end points, sum to one, ratio law; monotonicity over all lattice neighbours;
construction rejects values outside [0, 1].
"""
import math
from fractions import Fraction

from .. import core, universe as U

ID = "C15"
_VP = (7.0, -1600.0, -40.0, "antoine")
_CP = (30.0, 0.1, 0.0, 0.0)


def mixture_for(pair):
    if isinstance(pair, str):
        return U.get_mixture(pair)
    c1 = U.make_component("X1", pair[0], _VP, _CP)
    c2 = U.make_component("X2", pair[1], _VP, _CP)
    return U.Mixture(name="X", first_component=c1, second_component=c2, nrtl_params=U.NRTLParameters(g12=1.0, g21=2.0, alpha12=0.3))


def fractions(seed):
    ends = [0.0, 1e-15, 1e-12, 1e-9, 1e-6, 1e-3]
    mid = core.lat([0.01, 0.05, 0.1, 0.15, 0.2, 0.25, 0.3, 0.35, 0.4, 0.45, 0.5, 0.55, 0.6, 0.65, 0.7, 0.75, 0.8, 0.85,
                    0.9, 0.95, 0.99], seed)
    hi = [1 - 1e-3, 1 - 1e-6, 1 - 1e-9, 1 - 1e-12, 1.0]
    return ends + mid + hi


def convert(p, direction, mix):
    if direction == "w2m":
        return U.Composition(p=p, type="weight").to_molar(mix)
    return U.Composition(p=p, type="molar").to_weight(mix)


def exact(p, direction, m1, m2):
    return U.exact_to_molar(p, m1, m2) if direction == "w2m" else U.exact_to_weight(p, m1, m2)


def judge(case):
    mix = mixture_for(case["pair"])
    m1, m2 = mix.first_component.molecular_weight, mix.second_component.molecular_weight
    d = case["direction"]
    if case["what"] == "monotone":
        ps = sorted(case["ps"])
        v = []
        imgs = []
        for p_ in ps:
            st_c, c_ = core.call(convert, p_, d, mix)
            if st_c != "ok":
                return core.result("raised", viol=[core.viol("C15/valid_rejected", "conversion %s of the valid fraction %r raises %r" % (d, p_, c_))])
            imgs.append(float(c_.p))
        ex = [Fraction(exact(p, d, m1, m2)) for p in ps]
        for i in range(len(ps) - 1):
            if imgs[i + 1] < imgs[i]:
                v.append(core.viol("C15/not_monotone", "conversion %s decreases between %r and %r" % (d, ps[i], ps[i + 1])))
                break
            if float(ex[i + 1] - ex[i]) > 8 * 2.3e-16 * max(float(ex[i + 1]), 1e-300) and float(ex[i + 1] - ex[i]) > 8 * 1.2e-16 and not imgs[i + 1] > imgs[i]:
                v.append(core.viol("C15/not_strictly_increasing", "conversion %s maps %r and %r to the same value %r" % (d, ps[i], ps[i + 1], imgs[i])))
                break
        return core.result("monotone-chain", digest=core.digest_of([core.fhex(x) for x in imgs]), viol=v, neighbours=len(ps) - 1)
    p = case["p"]
    v = []
    st, c = core.call(convert, p, d, mix)
    if st != "ok":
        return core.result("raised", viol=[core.viol("C15/valid_rejected", "conversion of the valid fraction %r raises %r" % (p, c))])
    r = float(c.p)
    e = exact(p, d, m1, m2)
    if not abs(r - e) <= core.ULP * abs(e) + 4 * 2.3e-16 * (1.0 if e > 0.5 else 0.0):
        v.append(core.viol("C15/value/" + d, "%s(%r) = %r, exact rational conversion gives %r (M1=%r, M2=%r)" % (d, p, r, e, m1, m2)))
    want = "molar" if d == "w2m" else "weight"
    if c.type != want:
        v.append(core.viol("C15/type", "result type %r, expected %r" % (c.type, want)))
    if p in (0.0, 1.0) and not core.bit_eq(r, p):
        v.append(core.viol("C15/end_point", "%s(%r) = %r" % (d, p, r)))
    if not abs((c.first + c.second) - 1.0) <= 4e-16:
        v.append(core.viol("C15/sum", "first + second = %r" % (c.first + c.second)))
    # round trip
    st_b, back = core.call(c.to_weight if d == "w2m" else c.to_molar, mix)
    if st_b != "ok":
        v.append(core.viol("C15/round_trip/" + d, "%r -> %r, and converting that back raises %r" % (p, r, back)))
        return core.result("round-trip-raised", digest=core.digest_of([core.fhex(r)]), viol=v)
    if not abs(float(back.p) - p) <= core.ULP * abs(p) + (6e-16 if p > 0.5 else 0.0) + 1e-300:
        v.append(core.viol("C15/round_trip/" + d, "%r -> %r -> %r" % (p, r, float(back.p))))
    # ratio law away from the ends
    if 1e-3 <= p <= 1 - 1e-3 and 1e-6 <= r <= 1 - 1e-6:
        mole, mass = (r, p) if d == "w2m" else (p, r)
        lhs = mole / (1 - mole)
        rhs = mass / (1 - mass) * m2 / m1
        if not core.close(lhs, rhs, 1e-8):
            v.append(core.viol("C15/ratio_law", "mole ratio %r but mass ratio x M2/M1 = %r" % (lhs, rhs)))
    return core.result("converted", digest=core.digest_of([core.fhex(r)]), viol=v, sample={"p": p, "image": r})


def judge_reject(case):
    st, c = core.call(U.Composition, p=case["p"], type=case["type"])
    if st == "ok":
        return core.result("accepted", viol=[core.viol("C15/invalid_accepted", "Composition(p=%r) was constructed" % case["p"])])
    return core.result("rejected:" + type(c).__name__, digest=core.digest_of([repr(case["p"]), case["type"]]))


PRELUDES = ["none", "exhausting_process", "exhausting_noniso_process", "double_specification", "missing_parameters", "nonconverging_solver", "all"]


def _prelude(which):
    """model calls that RAISE (legitimately) before the construction is attempted: a failed call must not leave validation switched off."""
    mix = U.Mixtures.H2O_EtOH
    mem = U.make_membrane(mix, 1.0, 1.0, t_ref=313.15, ea1=25000.0, ea2=60000.0)
    pv = U.Pervaporation(membrane=mem, mixture=mix)
    cond = U.make_conditions(mix, 50.0, 333.15, 0.05, 0.3, "weight", "vac", "none")
    if which in ("exhausting_process", "all"):
        core.call(pv.ideal_isothermal_process, conditions=cond, number_of_steps=4, delta_hours=50.0)
    if which in ("exhausting_noniso_process", "all"):
        core.call(pv.ideal_non_isothermal_process, conditions=cond, number_of_steps=4, delta_hours=50.0)
    if which in ("double_specification", "all"):
        core.call(pv.calculate_partial_fluxes, feed_temperature=333.15, composition=U.Composition(p=0.3, type="weight"), permeate_temperature=290.0, permeate_pressure=1.0)
    if which in ("missing_parameters", "all"):
        nop = U.Mixture(name="N", first_component=mix.first_component, second_component=mix.second_component, nrtl_params=None, uniquac_params=mix.uniquac_params)
        core.call(U.Pervaporation(membrane=mem, mixture=nop).calculate_partial_fluxes, feed_temperature=333.15, composition=U.Composition(p=0.3, type="weight"), calculation_type="NRTL")
    if which in ("nonconverging_solver", "all"):
        # negative driving force: the permeate estimate leaves [0, 1] and the call raises from inside the iteration
        core.call(pv.calculate_partial_fluxes, feed_temperature=300.0, composition=U.Composition(p=0.02, type="weight"), permeate_pressure=80.0,
                  first_component_permeance=U.Permeance(value=1.0), second_component_permeance=U.Permeance(value=1e-6))


def judge_reject_after(case):
    _prelude(case["prelude"])
    r = judge_reject(case)
    if r["viol"]:
        r["viol"] = [core.viol("C15/invalid_accepted", "after model calls that raised (%s): Composition(p=%r) was constructed" % (case["prelude"], case["p"]))]
    return r


def pairs(tier):
    ratios = [1e-3, 1e-2, 0.1, 0.5, 1.0, 2.0, 10.0, 1e2, 1e3]
    mws = sorted({getattr(U.Components, n).molecular_weight for n in U.BUILTIN_COMPONENTS})
    # every ordered pair of built-in component molar masses (thorough) / the light-light, heavy-heavy and extreme ones (quick),
    # plus absolute magnitudes far from water's: both components heavy, both very heavy, both light
    builtin_pairs = [(a, b) for a in mws for b in mws if a != b]
    if tier == "quick":
        builtin_pairs = [pr for pr in builtin_pairs if pr in ((mws[0], mws[1]), (mws[-1], mws[-2]), (mws[-2], mws[-1]), (mws[0], mws[-1]), (mws[len(mws) // 2], mws[len(mws) // 2 + 1]))]
    heavy = [(78.11, 84.16), (150.0, 131.0), (800.0, 2000.0), (1.0e4, 2.5e4), (2.016, 4.003)]
    return (list(U.BUILTIN_MIXTURES) + [(18.02 * r, 18.02) for r in ratios] + builtin_pairs + heavy +
            ([] if tier == "quick" else [(250.7 / r, 46.07 * r) for r in (0.3, 3.0)]))


def main(tier, seed):
    rep = core.Report(
        ID, "exploration", tier, seed,
        rule="every (fraction, molar-mass pair, direction) of the finite lattice is converted once and compared with the exact "
             "rational conversion; plus one monotonicity chain per (pair, direction) over all lattice neighbours; plus rejection "
             "cases; non-trivial = converted and judged; distinct = distinct image bit pattern",
        assumptions=["lattice of fractions (dense within 1e-15 of both ends), not the continuum"],
        technique="bounded exhaustive enumeration against an exact rational reference model")
    ps = fractions(seed)
    sp = core.Space("conversions", {"what": ["value"], "pair": pairs(tier), "direction": ["w2m", "m2w"], "p": ps})
    core.run_space(rep, sp, judge)
    sp2 = core.Space("monotone_chains", {"what": ["monotone"], "pair": pairs(tier), "direction": ["w2m", "m2w"], "ps": [ps]})
    core.run_space(rep, sp2, judge)
    sp3 = core.Space("rejections", {"p": [-1e-12, 1 + 1e-12, -1.0, 2.0, math.nan, -math.inf, math.inf], "type": ["weight", "molar"]})
    core.run_space(rep, sp3, judge_reject)
    sp4 = core.Space("rejections_after_failed_model_calls", {"prelude": PRELUDES, "p": [-1e-12, 1 + 1e-12, 2.0, math.nan, math.inf], "type": ["weight", "molar"]})
    core.run_space(rep, sp4, judge_reject_after, chunk=1)
    return rep.finish()


def replay(body):
    fn = judge_reject if body.get("space") == "rejections" else (judge_reject_after if body.get("space") == "rejections_after_failed_model_calls" else judge)
    r = fn(body["case"])
    for v in r["viol"]:
        print("violation key=%s: %s" % (v["key"], v["msg"]))
    print("replayed: outcome=%s violations=%d" % (r["outcome"], len(r["viol"])))
    return 1 if r["viol"] else 0
