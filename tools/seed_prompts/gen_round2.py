tried={
'C01':"(1) clamping the next feed fraction to [precision, 1-precision] in the ideal non-isothermal model; (2) building the time grid of the non-ideal isothermal model with numpy.arange (an extra step for some (steps, dt) pairs)",
'C02':"(1) stopping the fixed-point loop on the absolute flux change instead of the composition change; (2) dropping calculation_type on the permeate-side get_partial_pressures call",
'C03':"(1) in the non-ideal non-isothermal model, heat-capacity variables overwritten by the cooling-heat variables of the permeate-temperature branch; (2) a Horner rewrite of TemperatureProgram.exponential that drops coefficients[1]",
'C05':"(1) facilitation factor of non_ideal_diffusion_curve evaluated at the un-converted (molar) composition; (2) skipping the Arrhenius re-scaling in the non-ideal non-isothermal model when the curve temperature equals the start temperature",
'C07':"(1) non_ideal_diffusion_curve losing the to_weight conversion only when initial permeances are supplied; (2) labelling the permeate estimate with the feed composition's type inside calculate_partial_fluxes",
'C08':"(1) calculate_separation_factor calling calculate_partial_fluxes positionally so the model argument is swallowed; (2) dropping calculation_type on the permeate-side get_partial_pressures call",
'C11':"(1) a 'retained mass' term without the membrane area in the self-cooling denominator of the non-ideal non-isothermal model; (2) an absolute 1e-5 kg threshold below which the ideal isothermal model carries the composition over unchanged",
'C18':"(1) ideal isothermal model: exhaustion guard comparing the step's removal with the INITIAL feed amount; (2) non-ideal non-isothermal model: mass and temperature guards merged with 'and'",
'C06':"(1) NRTL alpha21 chosen by truthiness ('alpha21 or alpha12'); (2) index slip [0] instead of [1] for the second component's permeate partial pressure in DiffusionCurve's permeate-temperature inversion. Also note: on the original code the UNIQUAC model is already asymmetric under relabelling (known defect in gamma_2) - that does not count; break the property with NRTL or in model-independent code",
'C16':"(1) a fit cache whose key omits component_index; (2) an early break in find_best_fit's loop over m",
'C17':"(1) DiffusionCurve.save converting the composition value to weight while still writing the original type label; (2) exist_ok=True in the process directory creation",
'C20':"(1) the molar->weight conversion loop of the non-ideal process models storing its result into the caller's curve set; (2) a module-level fit cache keyed without include_zero/component_index",
'C09':"(1) DiffusionCurve.permeate_composition labelled with the feed composition's type; (2) unit normalisation reading only the first permeance's units. Also note: on the original code the round trip already fails in permeate-PRESSURE mode with p > 0 (solver uses mass fractions, curve uses mole fractions: known defect) - that does not count",
'C10':"(1) iteration counter reset whenever the step shrinks; (2) unbounded restart from the midpoint when the bound is hit on an alternating orbit",
}
extra={
'C10':"You will need to FIND a cycling input with the ORIGINAL code: scan a small grid (mixtures from pyvaporation.Mixtures, permeate temperature = feed temperature minus 0..10 K, permeance pairs with ratios 1e-4..1e4, feed mass fractions 0.02..0.98, precision 1e-8 or 5e-5) for calls that end in the 'did not converge' ValueError; use signal.alarm / subprocess timeouts so nothing runs forever, and let the demo declare a hang after 60-120 s. The change should make the call iterate forever (or far beyond a million evaluations) on such inputs, e.g. because the bound does not apply on some path, in some mode, or through some entry point (process models, curves) that reaches the loop differently.",
}
import os
tmpl=open(os.path.join(os.path.dirname(os.path.abspath(__file__)), "seed_round2_template.txt")).read()
for pid,t in tried.items():
    open('/tmp/seed_round2_%s.txt'%pid,'w').write(tmpl.replace('@ID@',pid).replace('@TRIED@',t).replace('@EXTRA@',extra.get(pid,'')))
print('ok')
more={
'C04':"(1) a shared NRTL helper whose call for component 2 swaps x and tau but not the two alphas; (2) get_partial_pressures computing saturation pressures with a hard-wired Antoine form (ignores Frost-type constants). Also note: on the original code the UNIQUAC model already violates the Gibbs-Duhem clause through its gamma_2 expression (known defect) - that does not count; break the property in a new way (NRTL, UNIQUAC gamma_1, the pure-component limits, the Raoult limit, x*gamma*Psat, mole/mass independence)",
'C12':"(1) nearest experiment found by bisect (assumes ascending order); (2) regression branch using the raw (unconverted) permeance value of the nearest experiment",
'C13':"(1) Antoine c > 0 shifted by -273.15 in get_vapor_pressure only; (2) get_specific_heat clamped at 0 while get_cooling_heat integrates the unclamped polynomial",
'C14':"(1) the kg/(m2 h kPa) factor cached by component name; (2) an unknown or component-less source unit falling back to factor 1",
'C15':"(1) to_weight rounding its result to 10 decimals; (2) the [0,1] validator accepting values within 1e-9 outside the range",
'C19':"(1) DiffusionCurve accepting a permeate temperature together with a permeate pressure of exactly 0 ('not x' instead of 'x is None'); (2) calculate_activation_energy counting the experiments of the whole membrane instead of the component's",
}
for pid,t in more.items():
    open('/tmp/seed_round2_%s.txt'%pid,'w').write(tmpl.replace('@ID@',pid).replace('@TRIED@',t).replace('@EXTRA@',extra.get(pid,'')))
print('more ok')
