"""C12 - membrane permeance follows the Arrhenius law of its experiments.

E1: component x number of experiments (1..6) x ALL orderings of the experiment list (n <= 4;
rotations and reversal for n = 5, 6) x activation energy x stated/unstated x unit x query
temperature, against a closed-form reference (nearest experiment, least-squares slope).
"""
import itertools
import math

from .. import core, universe as U

ID = "C12"
TEMPS = [293.15, 313.15, 333.15, 353.15, 373.15, 393.15]
P_REF = {0: 3.1e-2, 1: 4.7e-4, 2: 2.2e-1}


def comp_for(name):
    return getattr(U.Components, name) if name in U.BUILTIN_COMPONENTS else U.syn_component(name)


def orderings(n):
    idx = list(range(n))
    if n <= 4:
        return [list(p) for p in itertools.permutations(idx)]
    out = []
    for r in range(n):
        rot = idx[r:] + idx[:r]
        out.append(rot)
        out.append(rot[::-1])
    return out


def line(p_ref, ea, t, t_ref):
    return p_ref * math.exp(-ea / U.R * (1 / t - 1 / t_ref))


def build(case):
    comp = comp_for(case["component"])
    other = comp_for("EtOH" if case["component"] != "EtOH" else "H2O")
    ea = case["ea"]
    temps = [case["temps"][i] for i in case["order"]]
    p_ref = P_REF[case["pidx"]]
    exps = []
    for k_, t in enumerate(temps):
        val_ = line(p_ref, ea, t, case["temps"][0])
        if case.get("offline"):
            # experiments that do NOT lie on the Arrhenius line of the stated energy: the stated energy must still be used
            val_ *= (1.0 + 0.37 * math.sin(1.7 + 2.3 * case["temps"].index(t)))
        perm = U.exact_permeance(val_, case["units"], comp.molecular_weight)
        ea_k = ea
        if case.get("per_experiment_ea"):
            ea_k = ea + 3100.0 * case["temps"].index(t)  # every experiment states its OWN activation energy
        exps.append(U.IdealExperiment(name="e", temperature=t, component=comp, permeance=perm,
                                      activation_energy=ea_k if case["stated"] else None))
    # experiments of another component interleaved: must be ignored
    exps.insert(1 if len(exps) > 1 else 0, U.IdealExperiment(name="o", temperature=303.0, component=other,
                                                             permeance=U.Permeance(value=7.7e-3), activation_energy=12345.0))
    return comp, other, temps, exps, U.Membrane(name="M", ideal_experiments=U.IdealExperiments(experiments=exps))


def judge(case):
    comp, other, temps, exps, mem = build(case)
    t = case["T"]
    ea = case["ea"]
    n = len(temps)
    dist = [abs(x - t) for x in temps]
    j = min(range(n), key=lambda i: dist[i])
    if sum(1 for d in dist if abs(d - dist[j]) < 1e-6) > 1:
        return core.result("tie-excluded", nontrivial=False)
    own = [e for e in exps if e.component.name == comp.name]
    # the measured value in kg/(m2 h kPa), recomputed by the harness (exact unit arithmetic; the library's convert is not trusted here)
    kg_j = line(P_REF[case["pidx"]], ea, temps[j], case["temps"][0])
    if case.get("offline"):
        kg_j *= (1.0 + 0.37 * math.sin(1.7 + 2.3 * case["temps"].index(temps[j])))
    measured = own[j].permeance.convert(to_units=U.Units.kg_m2_h_kPa, component=comp).value
    if not core.close(measured, kg_j, 1e-12):
        return core.result("judged", viol=[core.viol("C12/at_experiment", "the experiment at %r K was measured as %r kg/(m2 h kPa) (stated in %s) but converts to %r" % (
            temps[j], kg_j, case["units"], measured))])
    st, got = core.call(mem.get_permeance, t, comp)
    v = []
    p_true = line(P_REF[case["pidx"]], ea, t, case["temps"][0])
    if n == 1 and not case["stated"] and t != temps[0]:
        if st == "ok":
            v.append(core.viol("C12/single_unstated_accepted", "one experiment, no activation energy, off-temperature query returned %r" % got.value))
        return core.result("rejected-as-required", digest=core.digest_of(case), viol=v)
    if st != "ok":
        return core.result("raised", viol=[core.viol("C12/valid_raises", "get_permeance raises %r" % (got,))])
    if got.units != U.Units.kg_m2_h_kPa:
        v.append(core.viol("C12/units", "permeance returned in %r" % got.units))
    val = float(got.value)
    if t == temps[j]:
        if not core.bit_eq(val, measured):
            v.append(core.viol("C12/at_experiment", "query at an experiment's temperature returns %r, measured %r" % (val, measured)))
    elif case["stated"]:
        ea_j = ea + (3100.0 * case["temps"].index(temps[j]) if case.get("per_experiment_ea") else 0.0)
        ref = measured * math.exp(-ea_j / U.R * (1 / t - 1 / temps[j]))
        if not core.close(val, ref, core.ULP):
            v.append(core.viol("C12/arrhenius_stated", "T=%r: %r, nearest experiment (%r K) x Arrhenius factor = %r" % (t, val, temps[j], ref)))
    else:
        if not core.close(val, p_true, 1e-6 if case.get("narrow") else 1e-8):
            v.append(core.viol("C12/arrhenius_regressed", "T=%r: %r, experiments lie on the line giving %r" % (t, val, p_true)))
    # independent of nearest experiment / order of the list: compare with the Arrhenius line itself
    if not case.get("offline") and not case.get("per_experiment_ea") and not core.close(val, p_true, 1e-6 if case.get("narrow") else 1e-8):
        v.append(core.viol("C12/line", "T=%r: %r but the experiments' Arrhenius line gives %r (order %r)" % (t, val, p_true, case["order"])))
    if n >= 2 or case["stated"]:
        st, ea_fit = core.call(mem.calculate_activation_energy, comp)
        if st != "ok":
            v.append(core.viol("C12/valid_raises", "calculate_activation_energy raises %r" % (ea_fit,)))
        elif n >= 2 and not case.get("offline") and not case.get("per_experiment_ea") and not core.close(float(ea_fit), ea, 1e-7 if case.get("narrow") else 1e-9, 1e-6):
            v.append(core.viol("C12/regression", "regressed activation energy %r, true %r" % (float(ea_fit), ea)))
        elif n < 2 and not core.bit_eq(float(ea_fit), ea):
            v.append(core.viol("C12/stated_energy", "stated activation energy %r returned as %r" % (ea, float(ea_fit))))
    # at an experiment's temperature the measured value is returned whatever optional arguments are passed
    if not v and t == temps[j]:
        st_i, got_i = core.call(mem.get_permeance, t, comp, U.Permeance(value=0.777))
        if st_i != "ok" or not core.bit_eq(float(got_i.value), measured):
            v.append(core.viol("C12/at_experiment", "query at an experiment's temperature with an initial_permeance argument returns %r, measured %r" % (
                got_i if st_i != "ok" else float(got_i.value), measured)))
    # the same membrane object asked other questions first (another component, other temperatures) must answer the same
    if not v:
        _c, _o, _t, _e, mem2 = build(case)
        core.call(mem2.get_permeance, 301.7, other)
        core.call(mem2.get_permeance, temps[-1] + 13.3, comp)
        core.call(mem2.get_permeance, temps[0], comp)
        core.call(mem2.calculate_activation_energy, comp)
        st2, got2 = core.call(mem2.get_permeance, t, comp)
        if st2 != "ok" or not core.bit_eq(float(got2.value), val):
            v.append(core.viol("C12/depends_on_earlier_queries", "T=%r: a fresh membrane object answers %r, the same membrane after four other queries answers %r" % (
                t, val, got2 if st2 != "ok" else float(got2.value))))
    # "of its experiments": the membrane's experiment list edited AFTER it has been queried (an experiment appended in place; the
    # experiments object replaced) must answer like a fresh membrane holding the edited list
    if not v and t not in temps:
        for how in ("append_in_place", "replace_object"):
            _c, _o, _t, e3, mem3 = build(case)
            e3 = list(e3)  # the membrane holds the very list build() returned
            core.call(mem3.get_permeance, t, comp)
            core.call(mem3.calculate_activation_energy, comp)
            extra = U.IdealExperiment(name="x", temperature=t, component=comp, permeance=U.Permeance(value=0.4321),
                                      activation_energy=(ea if case["stated"] else None))
            if how == "append_in_place":
                mem3.ideal_experiments.experiments.append(extra)
            else:
                mem3.ideal_experiments = U.IdealExperiments(experiments=e3 + [extra])
            fresh = U.Membrane(name="M", ideal_experiments=U.IdealExperiments(experiments=e3 + [extra]))
            tq = [t, t + 0.8]
            for t_ in tq:
                sa, ga = core.call(mem3.get_permeance, t_, comp)
                sb, gb = core.call(fresh.get_permeance, t_, comp)
                if (sa == "ok") != (sb == "ok") or (sa == "ok" and not core.bit_eq(float(ga.value), float(gb.value))):
                    v.append(core.viol("C12/stale_after_experiments_edited", "experiments %s after a query: T=%r answers %r, a fresh membrane with the same experiments answers %r" % (
                        how, t_, ga if sa != "ok" else float(ga.value), gb if sb != "ok" else float(gb.value))))
                    break
            if v:
                break
    # the regression recovers the line's energy from two or more experiments whatever energies the experiments state
    if not v and n >= 2 and case["stated"] and not case.get("offline") and not case.get("per_experiment_ea"):
        _c, _o, _t, e4, _m = build(case)
        for e_ in e4:
            if e_.component.name == comp.name:
                e_.activation_energy = ea + 5000.0
        st4, ea4 = core.call(U.Membrane(name="M", ideal_experiments=U.IdealExperiments(experiments=e4)).calculate_activation_energy, comp)
        if st4 != "ok" or not core.close(float(ea4), ea, 1e-7 if case.get("narrow") else 1e-9, 1e-6):
            v.append(core.viol("C12/regression", "%d experiments on the Arrhenius line of %r J/mol that state %r J/mol: calculate_activation_energy gives %r" % (n, ea, ea + 5000.0, ea4)))
    # ONE Permeance object (stated in SI or GPU) serves as the measurement of BOTH components: each component's permeance is that number
    # converted with its own molar mass, whichever component is asked first
    if not v and case["units"] != U.Units.kg_m2_h_kPa and t == temps[j]:
        num = float(own[j].permeance.value)
        for order in ((comp, other), (other, comp)):
            shared = U.Permeance(value=num, units=case["units"])
            memS = U.Membrane(name="M", ideal_experiments=U.IdealExperiments(experiments=[
                U.IdealExperiment(name="a", temperature=t, component=comp, permeance=shared, activation_energy=30000.0),
                U.IdealExperiment(name="b", temperature=t, component=other, permeance=shared, activation_energy=20000.0)]))
            for c_ in order:
                want = float(U.exact_permeance_to_kg(num, case["units"], c_.molecular_weight))
                stS, gS = core.call(memS.get_permeance, t, c_)
                if stS != "ok" or not core.close(float(gS.convert(U.Units.kg_m2_h_kPa, c_).value), want, 1e-12):
                    v.append(core.viol("C12/at_experiment", "one Permeance object (%r %s) measured for both components: asked for %s (order %r) the membrane answers %r, exact %r kg/(m2 h kPa)" % (
                        num, case["units"], c_.name, [z.name for z in order], gS if stS != "ok" else float(gS.value), want)))
                    break
            if v:
                break
    # selectivity and pure-component flux
    if not v:
        st1, sm = core.call(mem.get_ideal_selectivity, 303.0 if False else t, comp, other, "molar")
        st2, sw = core.call(mem.get_ideal_selectivity, t, comp, other, "weight")
        if st1 == "ok" and st2 == "ok":
            if not core.close(float(sm), float(sw) * other.molecular_weight / comp.molecular_weight, core.ULP):
                v.append(core.viol("C12/selectivity", "molar selectivity %r, mass selectivity x M2/M1 = %r" % (float(sm), float(sw) * other.molecular_weight / comp.molecular_weight)))
        psat = float(comp.get_vapor_pressure(t))
        for kw, back in (({}, 0.0), ({"permeate_temperature": t - 35.0}, float(comp.get_vapor_pressure(t - 35.0))), ({"permeate_pressure": 0.7}, 0.7)):
            stf, fl = core.call(mem.get_estimated_pure_component_flux, t, comp, **kw)
            if stf != "ok":
                v.append(core.viol("C12/valid_raises", "pure-component flux raises %r" % (fl,)))
            elif not abs(float(fl) - val * (psat - back)) <= core.ULP * val * (psat + abs(back)):
                v.append(core.viol("C12/pure_flux", "pure-component flux %r, permeance x (Psat - permeate pressure) = %r (%r)" % (float(fl), val * (psat - back), kw)))
    return core.result("judged", digest=core.digest_of([core.fhex(val)]), viol=v, sample={"T": t, "permeance": val, "nearest": temps[j]})


def cases(tier, seed):
    q = tier == "quick"
    temps = core.lat(TEMPS, seed)
    queries = core.lat([260.0, 274.0, 288.3, 299.0, 307.7, 321.0, 333.15, 341.9, 356.0, 368.4, 381.0, 399.0, 420.0], seed)
    out = []
    for ci, comp in enumerate(["H2O", "EtOH", "SC"]):
        for n in range(1, 7):
            for order in orderings(n):
                for ea in (-60000.0, 20000.0, 120000.0):
                    for stated in (True, False):
                        for units in ([U.Units.kg_m2_h_kPa, "GPU"] if q else [U.Units.kg_m2_h_kPa, "SI", "GPU"]):
                            # incl. queries at an experiment's temperature and a few millikelvin beside it ("equal" is exact equality)
                            near = [temps[0] + 1e-3, temps[0] - 5e-3] + ([temps[n - 1] + 2e-3] if n > 1 else [])
                            qs = (queries[::2] + [temps[0]] + near[:2]) if q else (queries + temps[:n] + near + [temps[n // 2] - 1e-6])
                            for t in qs:
                                out.append({"component": comp, "pidx": ci, "temps": temps[:n], "order": order, "ea": ea,
                                            "stated": stated, "units": units, "T": t})
    # stated activation energy (incl. exactly 0) with experiments that are NOT on its Arrhenius line
    for ci, comp in enumerate(["H2O", "EtOH"]):
        for n in (2, 3, 4):
            for order in orderings(n)[:: (1 if q else 1)][:6]:
                for ea in (0.0, 20000.0, -60000.0):
                    for t in (queries[1::3] + [temps[0], temps[n - 1] + 1e-3]):
                        out.append({"component": comp, "pidx": ci, "temps": temps[:n], "order": order, "ea": ea, "stated": True, "units": U.Units.kg_m2_h_kPa,
                                    "T": t, "offline": True})
    # every experiment states its own activation energy (the nearest experiment's one counts), permeances off any common line
    for ci, comp in enumerate(["H2O", "EtOH"]):
        for n in (2, 3, 4):
            for order in orderings(n)[:6]:
                for t in (queries[1::3] + [temps[0], temps[n - 1] - 0.9]):
                    out.append({"component": comp, "pidx": ci, "temps": temps[:n], "order": order, "ea": 15000.0, "stated": True, "units": U.Units.kg_m2_h_kPa,
                                "T": t, "offline": True, "per_experiment_ea": True})
    # experiments clustered within a few kelvin (the regression is ill-conditioned but perfectly determined)
    for ci, comp in enumerate(["H2O", "SC"]):
        for cluster in ([350.0, 352.0], [300.0, 301.0, 302.0], [273.15, 274.4], [398.0, 399.1, 400.0]):
            for ea in (20000.0, 120000.0):
                for stated in (True, False):
                    for t in (cluster[0] - 0.7, cluster[-1] + 0.4, cluster[0] + 0.45):
                        out.append({"component": comp, "pidx": ci, "temps": cluster, "order": list(range(len(cluster))), "ea": ea, "stated": stated,
                                    "units": U.Units.kg_m2_h_kPa, "T": t, "narrow": True})
    return out


def main(tier, seed):
    rep = core.Report(
        ID, "exploration", tier, seed,
        rule="every (component, number of experiments, ordering of the experiment list, activation energy, stated/unstated, "
             "unit, query temperature) of the finite product is evaluated; all permutations for n <= 4, all rotations and their "
             "reversals for n = 5, 6; non-trivial = judged or rejected as required (ties between nearest experiments excluded); "
             "distinct = distinct returned bit pattern",
        assumptions=["Permeance.convert taken as given (C14)", "experiments lie exactly (up to rounding) on one Arrhenius line"],
        technique="bounded exhaustive enumeration (all orderings) against a closed-form reference model")
    core.run_space(rep, core.ListSpace("arrhenius", cases(tier, seed)), judge)
    return rep.finish()


def replay(body):
    r = judge(body["case"])
    for v in r["viol"]:
        print("violation key=%s: %s" % (v["key"], v["msg"]))
    print("replayed: outcome=%s violations=%d" % (r["outcome"], len(r["viol"])))
    return 1 if r["viol"] else 0
