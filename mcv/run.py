"""CLI: python -m mcv.run <ID> [--tier quick|thorough] [--replay file]"""
import argparse
import importlib
import json
import os
import sys


def main():
    ap = argparse.ArgumentParser()
    ap.add_argument("pid")
    ap.add_argument("--tier", default=os.environ.get("VERIF_TIER") or "quick", choices=["quick", "thorough"])
    ap.add_argument("--replay", default=None)
    args = ap.parse_args()
    seed = int(os.environ.get("VERIF_SEED", "0") or 0)
    pid = args.pid.upper()
    mod = importlib.import_module("mcv.props.%s" % pid.lower())
    if args.replay:
        with open(args.replay) as f:
            body = json.load(f)
        sys.exit(mod.replay(body))
    sys.exit(mod.main(args.tier, seed))


if __name__ == "__main__":
    main()
