#!/usr/bin/env python3
"""tools/seed_recheck.py <suffix e.g. _r7>  - for every seeded/<ID>_<V><suffix> whose recorded quick run of its own property's check did not
report the change, runs that check again against a scratch copy with the patch (tools/mutant_run.sh) and records the outcome in meta.json."""
import glob, json, os, re, subprocess, sys
HERE = os.path.dirname(os.path.dirname(os.path.abspath(__file__)))
suf = sys.argv[1]
for d in sorted(glob.glob(os.path.join(HERE, "seeded", "*" + suf))):
    mp = os.path.join(d, "meta.json")
    if not os.path.exists(mp):
        continue
    m = json.load(open(mp)); prop = m["property"]
    ck = m.get("checks_quick", {}).get(prop, {})
    if ck.get("exit") == 1:
        continue
    out = subprocess.run([os.path.join(HERE, "tools", "mutant_run.sh"), os.path.join(d, "patch.diff"), prop], capture_output=True, text=True, cwd=HERE).stdout
    mm = re.search(r"rc=(\d+) violations=(\d+)(.*)", out)
    if not mm:
        print("??", d, out); continue
    keys = re.findall(r"violation key=(\S+)", mm.group(3))
    m.setdefault("checks_quick", {})[prop] = {"exit": int(mm.group(1)), "violation_lines": int(mm.group(2)), "keys": keys, "rechecked_after_repair": True}
    json.dump(m, open(mp, "w"), indent=1)
    print(os.path.basename(d), prop, mm.group(1), keys[:2])
