#!/bin/bash
# tools/mutant_run.sh <patch.diff> [--tests] <ID> [<ID> ...]
# Applies a patch to a scratch copy of /repo under /dev/shm, runs the named checks against the copy
# (VERIF_REPO), prints one line per check, removes the copy.  Never touches /repo.
set -u
PATCH="$(readlink -f "$1")"; shift
TESTS=0
if [ "${1:-}" = "--tests" ]; then TESTS=1; shift; fi
HERE="$(cd "$(dirname "${BASH_SOURCE[0]}")/.." && pwd)"
W="/dev/shm/mut_$$"
rm -rf "$W"; mkdir -p "$W"
rsync -a --exclude .git --exclude '*.ipynb' /repo/ "$W/"
if ! (cd "$W" && patch -p1 -s < "$PATCH"); then echo "PATCH-FAILED $PATCH"; rm -rf "$W"; exit 3; fi
if [ $TESTS = 1 ]; then
  (cd "$W" && timeout 1500 /venv/bin/python -m pytest -q -p no:cacheprovider -n 8 2>&1 | tail -3)
fi
for id in "$@"; do
  out="$(cd "$HERE" && VERIF_REPO="$W" VERIF_EVIDENCE_DIR="$W/.evidence" ./check "$id" ${VERIF_TIER:+--tier $VERIF_TIER} 2>&1)"; rc=$?
  nv=$(echo "$out" | grep -c '^VIOLATION')
  keys=$(echo "$out" | grep -o 'violation key=[^:]*' | sort -u | head -4 | tr '\n' ' ')
  echo "$(basename "$(dirname "$PATCH")")/$(basename "$PATCH") $id rc=$rc violations=$nv $keys"
done
rm -rf "$W"
