#!/usr/bin/env python3
"""tools/seed_accept.py <worktree> <PROP> <variant letter> [--checks C01,C03] [--tier quick]
Verifies a sub-agent's seeded change independently in scratch copies of /repo under /dev/shm:
  1. patch applies to /repo's HEAD; 2. unedited test suite passes with it; 3. demo exits 1 with it and 0 without it;
  4. runs the named checks (default: the property's own) against the patched copy.
Stores /verif/seeded/<PROP>_<variant>/{patch.diff, demo.py, meta.json}. Removes the scratch copies."""
import json, os, shutil, subprocess, sys, time
wt, prop, var = sys.argv[1], sys.argv[2], sys.argv[3]
checks = [prop]
tier = "quick"
for i, a in enumerate(sys.argv):
    if a == "--checks":
        checks = sys.argv[i + 1].split(",")
    if a == "--tier":
        tier = sys.argv[i + 1]
HERE = os.path.dirname(os.path.dirname(os.path.abspath(__file__)))
patch = os.path.join(wt, "variant_%s.diff" % var)
demo = os.path.join(wt, "demo_%s.py" % var)
assert os.path.exists(patch) and os.path.exists(demo), (patch, demo)
W = "/dev/shm/seed_%d" % os.getpid()
W0 = W + "_orig"
for d in (W, W0):
    shutil.rmtree(d, ignore_errors=True)
    subprocess.check_call(["rsync", "-a", "--exclude", ".git", "--exclude", "*.ipynb", "/repo/", d + "/"])
meta = {"property": prop, "variant": var, "source_worktree": wt, "when": time.strftime("%Y-%m-%d %H:%M:%S")}
try:
    r = subprocess.run(["patch", "-p1", "-s", "-i", patch], cwd=W, capture_output=True, text=True)
    meta["patch_applies"] = r.returncode == 0
    if r.returncode != 0:
        print("PATCH FAILED", r.stdout, r.stderr)
        sys.exit(3)
    shutil.copy(demo, os.path.join(W, "demo.py")); shutil.copy(demo, os.path.join(W0, "demo.py"))
    r = subprocess.run(["/venv/bin/python", "-m", "pytest", "-q", "-p", "no:cacheprovider", "-n", "8"], cwd=W, capture_output=True, text=True)
    tail = r.stdout.strip().splitlines()[-1] if r.stdout.strip() else ""
    meta["tests"] = tail
    meta["tests_pass"] = r.returncode == 0
    r1 = subprocess.run(["/venv/bin/python", "demo.py"], cwd=W, capture_output=True, text=True)
    r0 = subprocess.run(["/venv/bin/python", "demo.py"], cwd=W0, capture_output=True, text=True)
    meta["demo_exit_with_change"] = r1.returncode
    meta["demo_exit_without_change"] = r0.returncode
    meta["demo_output_with_change"] = (r1.stdout + r1.stderr)[-600:]
    env = dict(os.environ, VERIF_REPO=W, VERIF_EVIDENCE_DIR=os.path.join(W, ".evidence"))
    res = {}
    for c in checks:
        r = subprocess.run(["./check", c, "--tier", tier], cwd=HERE, env=env, capture_output=True, text=True)
        keys = sorted({l.split("violation key=")[1].split(":")[0] for l in r.stdout.splitlines() if "violation key=" in l})
        res[c] = {"exit": r.returncode, "violation_lines": sum(1 for l in r.stdout.splitlines() if l.startswith("VIOLATION")), "keys": keys[:6]}
    meta["checks_" + tier] = res
    out = os.path.join(HERE, "seeded", "%s_%s%s" % (prop, var, os.environ.get("SEED_SUFFIX", "")))
    os.makedirs(out, exist_ok=True)
    shutil.copy(patch, os.path.join(out, "patch.diff")); shutil.copy(demo, os.path.join(out, "demo.py"))
    notes = os.path.join(wt, "NOTES.md")
    if os.path.exists(notes):
        shutil.copy(notes, os.path.join(out, "NOTES_from_author.md"))
    old = {}
    mp = os.path.join(out, "meta.json")
    if os.path.exists(mp):
        old = json.load(open(mp))
    old.update(meta)
    json.dump(old, open(mp, "w"), indent=1)
    print(json.dumps({k: meta[k] for k in ("tests", "tests_pass", "demo_exit_with_change", "demo_exit_without_change", "checks_" + tier)}, indent=1))
finally:
    shutil.rmtree(W, ignore_errors=True); shutil.rmtree(W0, ignore_errors=True)
