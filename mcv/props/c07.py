"""C07 - results do not depend on mole- vs mass-fraction input basis.

Twins: the same physical composition supplied as mass fraction and as the equivalent mole
fraction (harness conversion by exact rationals; the library's own conversion is judged by C15).
Entry points: flux solver, from-permeate-composition helper, permeate composition, separation
factor, ideal curve and its metrics, hand-built curves and their metrics, measurement extraction,
non-ideal curve, 4 process models (which must always report mass fractions).
"""
import math

from .. import core, solver, traces, universe as U
from . import spaces

ID = "C07"
PREC = 1e-10
TOL = 2e-7
BUDGET = 20000  # slower flux calculations are C10's business; here the pair is simply not judged


def eqv(a, b, rel, abs_=0.0):
    """twin equality: both NaN counts as equal (the same state gave the same non-number on both sides)."""
    a, b = float(a), float(b)
    if math.isnan(a) or math.isnan(b):
        return math.isnan(a) and math.isnan(b)
    return core.close(a, b, rel, abs_)


def tol_for(mode):
    return 1e-10 if mode == "vac" else TOL


def judge_point(case):
    mix = U.get_mixture(case["mixture"])
    t, x, model, P = case["T"], case["x"], case["model"], case["P"]
    mode = tuple(case["mode"]) if case["mode"] != "vac" else "vac"
    kw = U.permeate_kwargs(mode, t)
    tol = tol_for(mode)
    mem = U.make_membrane(mix, P[0], P[1], t_ref=t, ea1=25000.0, ea2=60000.0)
    pv = solver.ObservedPV(membrane=mem, mixture=mix).observe(budget=BUDGET, detect=False)
    cw, cm = U.composition(x, "weight", mix), U.composition(x, "molar", mix)
    v = []
    judged = 0

    def both(name, f, cmp):
        nonlocal judged
        sa, ra = core.call(f, cw)
        sb, rb = core.call(f, cm)
        if sa != "ok" or sb != "ok":
            if (sa == "ok") != (sb == "ok") and mode == "vac":
                v.append(core.viol("C07/outcome/" + name, "%s returns for one basis and raises for the other (%r / %r)" % (name, ra if sa != "ok" else "ok", rb if sb != "ok" else "ok")))
            return
        judged += 1
        bad = cmp(ra, rb)
        if bad:
            v.append(core.viol("C07/" + name, "%s: mass-fraction input gives %s, equivalent mole-fraction input gives %s" % (name, bad[0], bad[1])))

    def cmp_pair(a, b):
        a, b = (float(a[0]), float(a[1])), (float(b[0]), float(b[1]))
        tot = abs(a[0]) + abs(a[1])
        tot = tot if math.isfinite(tot) else 0.0
        return None if all(eqv(a[i], b[i], tol, 1e-9 * tot) for i in (0, 1)) else (a, b)

    def cmp_scalar(a, b, k=1.0):
        a, b = float(a), float(b)
        return None if eqv(a, b, tol * k) else (a, b)

    both("solver", lambda c: pv.calculate_partial_fluxes(feed_temperature=t, composition=c, precision=PREC, calculation_type=model, **kw), cmp_pair)
    both("from_permeate_helper", lambda c: pv.get_partial_fluxes_from_permeate_composition(
        first_component_permeance=U.Permeance(value=P[0]), second_component_permeance=U.Permeance(value=P[1]),
        permeate_composition=U.Composition(p=0.9, type="weight"), feed_composition=c, feed_temperature=t, calculation_type=model, **kw),
        lambda a, b: None if all(eqv(a[i], b[i], 1e-10, 1e-12 * (abs(float(a[0])) + (abs(float(a[1])) if math.isfinite(float(a[1])) else 0.0))) for i in (0, 1)) else (a, b))
    both("permeate_composition", lambda c: pv.calculate_permeate_composition(feed_temperature=t, composition=c, precision=PREC, calculation_type=model, **kw).p, cmp_scalar)
    both("separation_factor", lambda c: pv.calculate_separation_factor(feed_temperature=t, composition=c, precision=PREC, calculation_type=model, **kw),
         lambda a, b: cmp_scalar(a, b, 20.0))

    # ideal curve over two points and its metrics
    x2 = min(x + 0.03, 0.995)

    def curve(c):
        other = U.composition(x2, c.type, mix)
        return pv.ideal_diffusion_curve(feed_temperature=t, compositions=[c, other], precision=PREC, calculation_type=model, **kw)

    def cmp_curve(a, b):
        for i in range(2):
            bad = cmp_pair(a.partial_fluxes[i], b.partial_fluxes[i])
            if bad:
                return ("fluxes %r" % (bad[0],), "fluxes %r" % (bad[1],))
            for name, k in (("get_separation_factor", 20.0), ("get_psi", 20.0)):
                u, w = float(getattr(a, name)[i]), float(getattr(b, name)[i])
                ya = float(a.permeate_composition[i].p)
                if 1e-6 < ya < 1 - 1e-6 and not eqv(u, w, tol * k, tol * k * abs(sum(a.partial_fluxes[i]))):
                    return ("%s %r" % (name, u), "%s %r" % (name, w))
            if model == "NRTL":
                pa_, pb_ = a.permeances[i], b.permeances[i]
                ga, gb = a.get_permeances[i], b.get_permeances[i]
                for j in (0, 1):
                    if not eqv(float(pa_[j].value), float(pb_[j].value), tol * 100) or not eqv(float(ga[j].value), float(gb[j].value), tol * 100):
                        return ("permeances %r" % ((pa_[0].value, pa_[1].value),), "permeances %r" % ((pb_[0].value, pb_[1].value),))
                (su, u), (sw, w) = core.call(lambda: float(a.get_selectivity[i])), core.call(lambda: float(b.get_selectivity[i]))
                if su == "ok" and sw == "ok" and not eqv(u, w, tol * 300):
                    return ("selectivity %r" % u, "selectivity %r" % w)
        return None

    both("ideal_curve", curve, cmp_curve)

    # hand-built curve from fluxes (vacuum / the case's permeate condition), compositions in either basis
    def hand(c):
        return U.DiffusionCurve(mixture=mix, membrane_name="M", feed_temperature=t, feed_compositions=[c],
                                partial_fluxes=[(0.031, 0.0017)], permeate_temperature=kw.get("permeate_temperature"),
                                permeate_pressure=kw.get("permeate_pressure"))

    def cmp_hand(a, b):
        for j in (0, 1):
            if not eqv(float(a.permeances[0][j].value), float(b.permeances[0][j].value), 1e-10):
                return ("permeances %r" % ((a.permeances[0][0].value, a.permeances[0][1].value),), "permeances %r" % ((b.permeances[0][0].value, b.permeances[0][1].value),))
        for name in ("get_separation_factor", "get_psi", "get_selectivity"):
            (su, u), (sw, w) = core.call(lambda: float(getattr(a, name)[0])), core.call(lambda: float(getattr(b, name)[0]))
            if su != "ok" or sw != "ok":
                if su != sw:
                    return ("%s %r" % (name, u), "%s %r" % (name, w))
                continue
            if not eqv(u, w, 1e-9):
                return ("%s %r" % (name, u), "%s %r" % (name, w))
        return None

    both("hand_built_curve", hand, cmp_hand)

    # ... and with the fluxes handed over as a numpy array / as lists instead of tuples (two points)
    import numpy as _np
    for cont, mk in (("numpy", lambda f: _np.array(f)), ("lists", lambda f: [list(z) for z in f])):
        def hand2(c, mk=mk):
            c2 = U.composition(min(x * 1.3 + 0.05, 0.97), c.type, mix) if False else U.Composition(p=c.p, type=c.type)
            return U.DiffusionCurve(mixture=mix, membrane_name="M", feed_temperature=t, feed_compositions=[c, c2],
                                    partial_fluxes=mk([(0.031, 0.0017), (0.052, 0.0009)]), permeate_temperature=kw.get("permeate_temperature"),
                                    permeate_pressure=kw.get("permeate_pressure"))
        both("hand_built_curve/" + cont, hand2, cmp_hand)

    # the same NUMBER as a mass fraction and then as a mole fraction on one object (two different physical states):
    # the second answer must equal what a fresh object gives for it
    pv_seq = solver.ObservedPV(membrane=mem, mixture=mix).observe(budget=BUDGET, detect=False)
    c_same = U.Composition(p=x, type="molar")
    core.call(pv_seq.calculate_partial_fluxes, feed_temperature=t, composition=U.Composition(p=x, type="weight"), precision=PREC, calculation_type=model, **kw)
    s_seq, j_seq = core.call(pv_seq.calculate_partial_fluxes, feed_temperature=t, composition=c_same, precision=PREC, calculation_type=model, **kw)
    s_fr, j_fr = core.call(solver.ObservedPV(membrane=mem, mixture=mix).observe(budget=BUDGET, detect=False).calculate_partial_fluxes,
                           feed_temperature=t, composition=c_same, precision=PREC, calculation_type=model, **kw)
    if s_seq == "ok" and s_fr == "ok":
        judged += 1
        if not all(core.bit_eq(j_seq[i], j_fr[i]) for i in (0, 1)):
            v.append(core.viol("C07/same_number_other_basis", "mole fraction %r asked right after mass fraction %r on the same object gives %r, a fresh object %r" % (
                x, x, (float(j_seq[0]), float(j_seq[1])), (float(j_fr[0]), float(j_fr[1])))))

    # a curve whose points mix both bases (first point in one basis, second in the other) against its all-mass-fraction twin
    x2h = min(x + 0.05, 0.99)

    def hand2(first_basis, second_basis):
        return U.DiffusionCurve(mixture=mix, membrane_name="M", feed_temperature=t,
                                feed_compositions=[U.composition(x, first_basis, mix), U.composition(x2h, second_basis, mix)],
                                partial_fluxes=[(0.031, 0.0017), (0.052, 0.0009)], permeate_temperature=kw.get("permeate_temperature"),
                                permeate_pressure=kw.get("permeate_pressure"))

    st_w, cw_ = core.call(hand2, "weight", "weight")
    for fb, sb_ in (("weight", "molar"), ("molar", "weight")):
        st_m, cm_ = core.call(hand2, fb, sb_)
        if st_w != "ok" or st_m != "ok":
            continue
        judged += 1
        for name in ("get_separation_factor", "get_psi", "get_selectivity"):
            for i in (0, 1):
                (su, u), (sw_, w_) = core.call(lambda: float(getattr(cw_, name)[i])), core.call(lambda: float(getattr(cm_, name)[i]))
                if su == "ok" and sw_ == "ok" and not eqv(u, w_, 1e-9):
                    v.append(core.viol("C07/mixed_basis_curve/" + name, "point %d of a curve with points in (%s, %s) basis: %s = %r, all-mass-fraction twin %r" % (i, fb, sb_, name, w_, u)))
                    break
            else:
                continue
            break
        for i in (0, 1):
            for j in (0, 1):
                if not eqv(float(cw_.permeances[i][j].value), float(cm_.permeances[i][j].value), 1e-10):
                    v.append(core.viol("C07/mixed_basis_curve/permeances", "point %d: permeances differ between mixed-basis curve and its mass-fraction twin" % i))
    return core.result("judged" if judged else "not-judged:raised", nontrivial=judged > 0, digest=core.digest_of(case), viol=v, entry_points_compared=judged)


def judge_measurements(case):
    mix = U.get_mixture(case["mixture"])
    cfg = case["curves"]
    sets = {b: U.make_curve_set(mix, law=cfg["law"], temps=tuple(cfg["temps"]), basis=b, units=cfg.get("units", U.Units.kg_m2_h_kPa)) for b in ("weight", "molar")}
    M = U.pyvaporation.Measurements
    v = []
    n = 0
    for name, f in (("from_diffusion_curves_first", M.from_diffusion_curves_first), ("from_diffusion_curves_second", M.from_diffusion_curves_second),
                    ("from_diffusion_curve_first", lambda s: M.from_diffusion_curve_first(s.diffusion_curves[0])),
                    ("from_diffusion_curve_second", lambda s: M.from_diffusion_curve_second(s.diffusion_curves[-1]))):
        a, b = f(sets["weight"]), f(sets["molar"])
        if len(a) != len(b):
            v.append(core.viol("C07/measurements/" + name, "%d points from the mass-fraction set, %d from the molar set" % (len(a), len(b))))
            continue
        for i in range(len(a)):
            n += 1
            if not (eqv(a[i].x, b[i].x, 1e-12) and core.bit_eq(a[i].t, b[i].t) and eqv(a[i].p, b[i].p, 1e-12)):
                v.append(core.viol("C07/measurements/" + name, "point %d: (x=%r, t=%r, p=%r) from the mass-fraction set, (x=%r, t=%r, p=%r) from the molar set" % (
                    i, a[i].x, a[i].t, a[i].p, b[i].x, b[i].t, b[i].p)))
                break
    # a curve whose rows alternate between the two bases, written to CSV and read back: every point is a mass fraction afterwards
    if not v:
        import tempfile, shutil, pathlib
        xs_ = list(U.CURVE_XS)
        mixed = U.DiffusionCurve(mixture=mix, membrane_name="M", feed_temperature=333.15,
                                 feed_compositions=[U.composition(x_, "weight" if i_ % 2 == 0 else "molar", mix) for i_, x_ in enumerate(xs_)],
                                 permeances=[(U.Permeance(value=U.law_value("lawA", 0, x_, 333.15)), U.Permeance(value=U.law_value("lawA", 1, x_, 333.15))) for x_ in xs_])
        if mix.name in U.BUILTIN_MIXTURES and mix is getattr(U.Mixtures, mix.name, None):
            d_ = tempfile.mkdtemp(prefix="c07_", dir="/dev/shm" if pathlib.Path("/dev/shm").is_dir() else None)
            try:
                pth = pathlib.Path(d_) / "mixed.csv"
                mixed.save(pth)
                st_l, cs_l = core.call(U.DiffusionCurveSet.load, pth)
                if st_l == "ok":
                    got = M.from_diffusion_curves_first(cs_l)
                    n += len(got)
                    if len(got) != len(xs_) or not all(eqv(got[i].x, xs_[i], 1e-9) for i in range(len(xs_))):
                        v.append(core.viol("C07/measurements/csv_mixed_basis", "a curve with alternating mass/mole-fraction rows, saved and re-loaded, yields x = %r instead of the mass fractions %r" % (
                            [round(float(g.x), 6) for g in got.data[:4]], xs_[:4])))
            finally:
                shutil.rmtree(d_, ignore_errors=True)
    # ... and again AFTER each non-ideal entry point has been given the molar set (none of them may rewrite it)
    if not v:
        mem = U.make_membrane(mix, 1e-2, 1e-4, t_ref=333.15, ea1=25000.0, ea2=60000.0, curve_sets=[sets["molar"]])
        pv = U.Pervaporation(membrane=mem, mixture=mix)
        cond = U.make_conditions(mix, 0.05, 333.15, 50.0, 0.2, "weight", "vac", "none")
        ref = M.from_diffusion_curves_second(sets["weight"])
        for name, f in (("non_ideal_isothermal_process", lambda: pv.non_ideal_isothermal_process(conditions=cond, diffusion_curve_set=sets["molar"], number_of_steps=1, delta_hours=0.1)),
                        ("non_ideal_non_isothermal_process", lambda: pv.non_ideal_non_isothermal_process(conditions=cond, diffusion_curve_set=sets["molar"], number_of_steps=1, delta_hours=0.1)),
                        ("non_ideal_diffusion_curve", lambda: pv.non_ideal_diffusion_curve(diffusion_curve_set=sets["molar"], feed_temperature=333.15,
                                                                                           initial_feed_composition=U.Composition(p=0.2, type="weight"), delta_composition=0.01, number_of_steps=1))):
            core.call(f)
            b2 = M.from_diffusion_curves_second(sets["molar"])
            n += len(b2)
            if len(b2) != len(ref) or not all(eqv(ref[i].x, b2[i].x, 1e-12) and eqv(ref[i].p, b2[i].p, 1e-12) for i in range(len(ref))):
                v.append(core.viol("C07/measurements/after_" + name, "measurement points extracted from the molar set after it was passed to %s differ from those of the mass-fraction set (first x: %r vs %r)" % (
                    name, b2[0].x if len(b2) else None, ref[0].x)))
                break
    return core.result("judged", digest=core.digest_of(case), viol=v, points_compared=n)


def judge_process(case):
    out = {}
    for basis in ("weight", "molar"):
        s = traces.Setup(dict(case, basis=basis, budget=BUDGET // 4))
        st, pm = s.run()
        out[basis] = (st, pm, s)
    (sa, pa, s1), (sb, pb, _) = out["weight"], out["molar"]
    v = []
    if sa != "ok" or sb != "ok":
        return core.result("not-judged:raised", nontrivial=False)
    ta, tb = traces.extract(pa), traces.extract(pb)
    if any(t != "weight" for t in tb["x_type"] + ta["x_type"]):
        v.append(core.viol("C07/process_reports_basis/" + case["kind"], "a process model reports a feed composition that is not a mass fraction"))
    tol = (1e-10 if s1.mode == "vac" else TOL) * 10 * max(1, case["steps"])
    n = min(ta["n"], tb["n"])
    for k in range(n):
        if not all(j > 0 for j in ta["J"][k] + tb["J"][k]):
            n = k
            break
        pairs = [("feed mass", ta["m"][k], tb["m"][k]), ("temperature", ta["T"][k], tb["T"][k]), ("feed fraction", ta["x"][k], tb["x"][k]),
                 ("permeate fraction", ta["y"][k], tb["y"][k]), ("flux 1", ta["J"][k][0], tb["J"][k][0]), ("flux 2", ta["J"][k][1], tb["J"][k][1]),
                 ("permeance 1", ta["P"][k][0], tb["P"][k][0]), ("permeance 2", ta["P"][k][1], tb["P"][k][1]), ("evaporation heat", ta["Q"][k], tb["Q"][k])]
        bad = [(nm, u, w) for nm, u, w in pairs if not eqv(u, w, tol, 1e-9 * tol)]
        if bad:
            nm, u, w = bad[0]
            v.append(core.viol("C07/process/" + case["kind"], "%s at step %d: %r with a mass-fraction initial feed, %r with the equivalent mole fraction" % (nm, k, u, w), step=k))
            break
    # the caller's MOLAR Conditions object is first handed to a model of another mixture (same kind), then to this one: the mole
    # fraction it states must still be read as a mole fraction of THIS mixture (bit-identical to the fresh-object run)
    if not v:
        other = "H2O_iPOH" if case["mixture"] != "H2O_iPOH" else "MeOH_DMC"
        s_other = traces.Setup(dict(case, mixture=other, model="NRTL", basis="molar", budget=BUDGET // 4))
        s_this = traces.Setup(dict(case, basis="molar", budget=BUDGET // 4))
        s_other.run(steps=1, conditions=s_this.conditions)
        st3, pm3 = s_this.run()
        if st3 != "ok" or traces.trace_digest(traces.extract(pm3)) != traces.trace_digest(tb):
            v.append(core.viol("C07/molar_conditions_reused/" + case["kind"], "a Conditions object stating a MOLE fraction was used with another mixture first: the run then %s" % (
                "raises %r" % (pm3,) if st3 != "ok" else "starts from feed mass fraction %r instead of %r" % (traces.extract(pm3)["x"][0], tb["x"][0]))))
    return core.result("judged", digest=traces.trace_digest(ta), viol=v, states=2 * n, transitions=2 * max(n - 1, 0), traces=2)


def judge_nonideal_curve(case):
    mix = U.get_mixture(case["mixture"])
    cfg = case["curves"]
    cs = U.make_curve_set(mix, law=cfg["law"], temps=tuple(cfg["temps"]))
    mem = U.make_membrane(mix, 1e-2, 1e-4, t_ref=333.15, ea1=25000.0, ea2=60000.0, curve_sets=[cs])
    pv = solver.ObservedPV(membrane=mem, mixture=mix).observe(budget=BUDGET, detect=False)
    mode = tuple(case["mode"]) if case["mode"] != "vac" else "vac"
    kw = U.permeate_kwargs(mode, case["T"])
    res = {}
    for basis in ("weight", "molar"):
        res[basis] = core.call(pv.non_ideal_diffusion_curve, diffusion_curve_set=cs, feed_temperature=case["T"],
                               initial_feed_composition=U.composition(case["x"], basis, mix), delta_composition=case["dx"], number_of_steps=case["steps"],
                               precision=PREC, calculation_type=case["model"], initial_permeances=None if case["init"] is None else (
                                   U.Permeance(value=case["init"][0]), U.Permeance(value=case["init"][1])), **kw)
    (sa, a), (sb, b) = res["weight"], res["molar"]
    if sa != "ok" or sb != "ok":
        return core.result("not-judged:raised", nontrivial=False)
    v = []
    tol = tol_for(mode) * 10
    for i in range(len(a.partial_fluxes)):
        fa, fb = a.partial_fluxes[i], b.partial_fluxes[i]
        tot = abs(float(fa[0])) + abs(float(fa[1]))
        if not all(eqv(float(fa[j]), float(fb[j]), tol, 1e-9 * tot) for j in (0, 1)) or not all(
                eqv(float(a.permeances[i][j].value), float(b.permeances[i][j].value), 1e-10) for j in (0, 1)):
            v.append(core.viol("C07/nonideal_curve", "point %d: fluxes %r / permeances %r with a mass-fraction initial composition, %r / %r with the equivalent mole fraction" % (
                i, fa, (a.permeances[i][0].value, a.permeances[i][1].value), fb, (b.permeances[i][0].value, b.permeances[i][1].value))))
            break
        if not eqv(U.mass_fraction(a.feed_compositions[i], mix), U.mass_fraction(b.feed_compositions[i], mix), 1e-10):
            v.append(core.viol("C07/nonideal_curve", "point %d is at a different composition" % i))
            break
    return core.result("judged", digest=core.digest_of(case), viol=v, states=2 * len(a.partial_fluxes), transitions=2 * (len(a.partial_fluxes) - 1), traces=2)


def main(tier, seed):
    q = tier == "quick"
    rep = core.Report(
        ID, "model_checking", tier, seed,
        rule="every case of the finite lattices is evaluated once with a mass-fraction input and once with the equivalent mole "
             "fraction (exact rational conversion) and the outputs compared (states of process/curve twins compared one by one); "
             "non-trivial = both twins returned; distinct = distinct case digest",
        assumptions=["twins differ in the last bits of the composition: vacuum 1e-10, otherwise precision 1e-10 and 2e-7 relative",
                     "fitted coefficients are compared only through their inputs (measurement points), as the statement prescribes",
                     "find_best_fit memoised (deep copies)"],
        technique="explicit-state simulation relation between a run and its re-based twin, exhaustive over finite lattices")
    U.install_fit_memo()
    mixes = ["H2O_EtOH", "MeOH_DMC", "S2", "S5"] if q else [m for m in U.ALL_MIXTURES]
    xs = core.lat([0.05, 0.3, 0.6, 0.95], seed) if q else core.lat([0.02, 0.05, 0.1, 0.3, 0.5, 0.7, 0.9, 0.96], seed)
    ts = core.lat([313.15, 353.15], seed) if q else core.lat([293.15, 313.15, 333.15, 353.15, 373.15], seed)
    modes = ["vac", ("T", -60.0), ("p", 0.5)] if q else ["vac", ("T", 120.0), ("T", -60.0), ("T", -20.0), ("p", 0.5), ("p", 5.0)]

    def ok(c):
        return U.has_model(U.get_mixture(c["mixture"]), c["model"])

    core.run_space(rep, core.Space("point_entry_points", {"mixture": mixes, "model": ["NRTL", "UNIQUAC"], "mode": modes,
                                                          "P": [(1e-2, 1e-4), (1e-4, 1e-2)], "T": ts, "x": xs}, ok), judge_point)
    core.run_space(rep, core.Space("measurement_extraction", {"mixture": ["H2O_EtOH", "MeOH_DMC", "S1", "S2", "S4"],
                                                              "curves": list(spaces.CURVE_CONFIGS.values())}), judge_measurements)
    psp = spaces.ideal_space("quick", seed)
    ideal = dict(zip(psp.names, psp.alphabets))
    ideal.update(basis=["both"], precision=[PREC], steps=[1, 4] if q else [1, 3, 8], tref_offset=[-12.0], area=[0.05, 1.0], amount=[50.0] if q else [0.047, 50.0])
    nsp = spaces.nonideal_space("quick", seed)
    non = dict(zip(nsp.names, nsp.alphabets))
    non.update(basis=["both"], precision=[PREC], steps=[1, 4] if q else [1, 3, 8], area=[0.05, 1.0], amount=[50.0] if q else [0.047, 50.0])
    if not q:
        ideal.update(mixture=list(U.ALL_MIXTURES), mode=["vac", ("T", -60.0), ("T", -20.0), ("p", 0.5), ("p", 5.0)],
                     x0=core.lat([0.05, 0.3, 0.6, 0.9], seed), T=core.lat([313.15, 333.15, 353.15], seed), prog=["none", "poly"], steps=[1, 6])
        non.update(mixture=["H2O_EtOH", "MeOH_DMC", "S2", "S4"], curves=list(spaces.CURVE_CONFIGS.values()),
                   x0=core.lat([0.1, 0.3, 0.45], seed), steps=[1, 6], prog=["none", "poly"])
    for name, alph, cons in (("ideal_process_twins", ideal, psp.constraint), ("nonideal_process_twins", non, nsp.constraint)):
        sp = core.Space(name, alph, cons)
        spaces.prewarm(sp)
        core.run_space(rep, sp, judge_process)
    # curve sets measured over a NARROW composition range: the feed's mass fraction lies inside the range, the NUMBER of its mole
    # fraction outside (and the other way round) - whatever the models decide from "inside / outside the measured range" must be
    # decided in one basis
    narrow = dict(non)
    narrow.update(mixture=["H2O_EtOH", "MeOH_DMC"] if q else ["H2O_EtOH", "MeOH_DMC", "S2"], model=["NRTL"], prog=["none"], init_perm=[None], area=[0.05], amount=[50.0], steps=[3],
                  T=[333.15, 338.15], dt=core.lat([0.1], seed),
                  curves=[{"law": "lawA", "temps": [343.15, 313.15], "xs": [0.05, 0.1, 0.15, 0.2, 0.25, 0.3]}, {"law": "lawA", "temps": [333.15], "xs": [0.05, 0.1, 0.15, 0.2, 0.25, 0.3]},
                          {"law": "lawA", "temps": [343.15, 313.15], "xs": [0.3, 0.4, 0.5, 0.6, 0.7]}],
                  x0=core.lat([0.207, 0.27, 0.33, 0.45, 0.69], seed))
    sp = core.Space("nonideal_process_twins_narrow_range", narrow, nsp.constraint)
    spaces.prewarm(sp)
    core.run_space(rep, sp, judge_process)
    cur = {"mixture": ["H2O_EtOH", "S2"], "model": ["NRTL", "UNIQUAC"], "mode": ["vac", ("T", -20.0), ("p", 0.5)],
           "curves": [spaces.CURVE_CONFIGS["one"], spaces.CURVE_CONFIGS["two"]], "T": [333.15, 318.15], "x": core.lat([0.1, 0.45], seed),
           "dx": [0.02, -0.01], "steps": [3], "init": [None, (2.5e-2, 3.0e-5)]}
    core.run_space(rep, core.Space("nonideal_curve_twins", cur, ok), judge_nonideal_curve)
    return rep.finish()


def replay(body):
    U.install_fit_memo()
    fn = {"point_entry_points": judge_point, "measurement_extraction": judge_measurements, "ideal_process_twins": judge_process,
          "nonideal_process_twins": judge_process, "nonideal_process_twins_narrow_range": judge_process, "nonideal_curve_twins": judge_nonideal_curve}[body["space"]]
    r = fn(body["case"])
    for v in r["viol"]:
        print("violation key=%s: %s" % (v["key"], v["msg"]))
    print("replayed: outcome=%s violations=%d" % (r["outcome"], len(r["viol"])))
    return 1 if r["viol"] else 0
