"""C10 - the flux calculation always terminates.

E4: the permeate-composition iteration is a deterministic dynamical system on one float.  A
harness-side seam records the exact orbit.  Violation = the orbit is provably periodic (a float
state revisited at distance >= 2) AND the call is still iterating after B = 10^6 driving-force
evaluations (memoised evaluation makes that affordable).  An orbit that exhausts B without any revisit
is reported under a separate key, under the same stated reading of "a bounded number" (B = 10^6).
"""
import math

from .. import core, solver, traces, universe as U
from . import spaces

ID = "C10"
B = 10 ** 6
_CONFIRMED = {"n": 0}
STOP_AFTER = 3


def classify(out):
    if out["status"] == "ok":
        return "converged"
    if out["status"] == "raise":
        if out["period"] is not None:
            return "periodic-then-raised:" + type(out["exc"]).__name__
        return "raised:" + type(out["exc"]).__name__
    if out["status"] == "lasso":
        return "periodic-and-running"
    return "aperiodic-and-running"


def judge(case):
    if _CONFIRMED["n"] >= STOP_AFTER:
        return core.result("skipped-after-%d-confirmed-violations" % STOP_AFTER, nontrivial=False, skipped=1)
    mix = U.get_mixture(case["mixture"])
    pv = solver.make_pv(mix)
    comp = U.composition(case["x"], "weight", mix)
    out = solver.solve(pv, case["T"], comp, case["P"], tuple(case["mode"]) if case["mode"] != "vac" else "vac",
                       case["precision"], case["model"], budget=B)
    cls = classify(out)
    v = []
    if out["status"] == "lasso":
        _CONFIRMED["n"] += 1
        v.append(core.viol("C10/periodic_and_running", "flux calculation cycles with period %d (entered at evaluation %d) and is still iterating after %d evaluations" % (
            out["period"], out["entry"], B), period=out["period"], entry=out["entry"]))
    elif out["status"] == "budget":
        # no float state was revisited, yet B evaluations (10x the slowest orbit that is allowed to exist on this tree)
        # did not end the call: under this harness's stated reading of "a bounded number" that is a violation too
        _CONFIRMED["n"] += 1
        v.append(core.viol("C10/still_running_after_budget", "flux calculation is still iterating after %d driving-force evaluations (no exact period detected)" % B))
    return core.result(cls, nontrivial=True, digest=core.digest_of([cls.split(":")[0], out["calls"], core.fhex(out["fluxes"][0]) if out["status"] == "ok" else None]),
                       viol=v, states=min(out["calls"], 10 ** 9), transitions=max(out["calls"] - 1, 0), traces=1,
                       max_calls_converged=out["calls"] if out["status"] == "ok" else None,
                       periodic=1 if out["period"] is not None else 0,
                       sample={"calls": out["calls"], "class": cls})


def judge_process(case):
    if _CONFIRMED["n"] >= STOP_AFTER:
        return core.result("skipped-after-%d-confirmed-violations" % STOP_AFTER, nontrivial=False, skipped=1)
    setup = traces.Setup(case)
    setup.pv = solver.ObservedPV(membrane=setup.membrane, mixture=setup.mixture).observe(budget=B)
    try:
        st, pm = setup.run()
    except solver.Lasso as e:
        _CONFIRMED["n"] += 1
        return core.result("periodic-and-running", viol=[core.viol("C10/process_hangs/" + setup.kind, "a step of the process model never finishes: %s" % e)], traces=1)
    except solver.Budget as e:
        _CONFIRMED["n"] += 1
        return core.result("aperiodic-and-running", viol=[core.viol("C10/process_hangs/" + setup.kind, "a step of the process model is still iterating after the evaluation budget: %s" % e)], traces=1)
    return core.result("returned" if st == "ok" else "raised:" + type(pm).__name__, digest=core.digest_of([case, st]), traces=1,
                       states=case["steps"], transitions=case["steps"])


def flux_space(tier, seed):
    q = tier == "quick"
    alph = {
        "mixture": ["H2O_EtOH", "H2O_iPOH", "MeOH_DMC", "MeOH_Toluene", "S1", "S2"] if q else list(U.ALL_MIXTURES),
        "model": ["NRTL", "UNIQUAC"],
        "mode": [("T", -60.0), ("T", -20.0), ("T", -10.0), ("T", -5.0), ("T", -2.0), ("T", -1.0), ("T", 0.0),
                 ("p", 0.5), ("p", 5.0), ("p", 100.0)] + ([] if q else ["vac", ("T", 120.0), ("T", -40.0), ("T", -0.5), ("p", 30.0)]),
        "P": [(1.0, 1e-6), (1e-2, 1e-4), (1e-3, 1e-3), (1e-4, 1e-2), (1e-6, 1.0)] if q else
             [(1.0, 1e-6), (1e-1, 1e-5), (1e-2, 1e-4), (3e-3, 1e-3), (1e-3, 1e-3), (1e-3, 3e-3), (1e-4, 1e-2), (1e-5, 1e-1), (1e-6, 1.0)],
        "x": core.lat([0.02, 0.1, 0.3, 0.5, 0.7, 0.9, 0.98], seed) if q else
             core.lat([0.01, 0.02, 0.05, 0.1, 0.2, 0.3, 0.4, 0.5, 0.6, 0.7, 0.8, 0.9, 0.95, 0.98, 0.99], seed),
        "T": core.lat([313.15, 353.15], seed) if q else core.lat([273.15, 293.15, 313.15, 333.15, 353.15, 373.15, 400.0], seed),
        "precision": [5e-5, 1e-8] if q else [1e-3, 5e-5, 1e-8],
    }
    return core.Space("flux_orbits", alph, lambda c: U.has_model(U.get_mixture(c["mixture"]), c["model"]))


def process_space(tier, seed):
    q = tier == "quick"
    alph = {
        "kind": ["ideal_iso", "ideal_noniso"],
        "mixture": ["H2O_EtOH", "MeOH_DMC", "MeOH_Toluene"] if q else ["H2O_EtOH", "H2O_iPOH", "MeOH_DMC", "MeOH_Toluene", "S1", "S2"],
        "model": ["NRTL", "UNIQUAC"],
        "mode": [("T", -5.0), ("T", -1.0), ("T", 0.0)],
        "prog": ["none"],
        "area": [0.05], "amount": [50.0], "dt": [0.5], "steps": [3],
        "x0": core.lat([0.1, 0.5, 0.9], seed),
        "basis": ["weight"],
        "T": core.lat([313.15, 353.15], seed),
        "P": [(1e-2, 1e-4), (1e-4, 1e-2)] if q else [(1.0, 1e-6), (1e-2, 1e-4), (1e-3, 1e-3), (1e-4, 1e-2), (1e-6, 1.0)],
    }
    return core.Space("process_near_equilibrium", alph, lambda c: U.has_model(U.get_mixture(c["mixture"]), c["model"]))


def main(tier, seed):
    rep = core.Report(
        ID, "model_checking", tier, seed,
        rule="every element of the finite flux lattice (dense near feed/permeate equilibrium) is one observed flux calculation; "
             "its exact float orbit is the explored trace (states = driving-force evaluations); non-trivial = decided "
             "(converged, raised, or periodic); distinct = distinct (class, evaluations, flux bits)",
        assumptions=["B = 10^6 driving-force evaluations is this harness's reading of 'a bounded number'",
                     "once an exact float state is revisited the driving-force function is memoised (same input, constant "
                     "other arguments -> same output); the real loop, exit test and counters still run every iteration",
                     "an orbit that neither converges, raises nor revisits a float within B evaluations is reported as a violation under the same reading of B (on this tree the library's own bound is 1e5, so B is never reached)"],
        technique="lasso detection on the exact float orbit of the fixed-point iteration (explicit-state liveness), exhaustive over a finite lattice")
    m = core.run_space(rep, flux_space(tier, seed), judge)
    core.run_space(rep, process_space(tier, seed), judge_process)
    per = sum(v for k, v in m["outcomes"].items() if k.startswith("periodic"))
    rep.note("periodic_orbits_in_flux_lattice", per)
    rep.note("aperiodic_and_running", m["outcomes"].get("aperiodic-and-running", 0))
    if any(k.startswith("skipped") for k in m["outcomes"]):
        rep.cap("exploration of a shard stopped after %d confirmed violations" % STOP_AFTER)
    return rep.finish()


def replay(body):
    fn = judge_process if "kind" in body["case"] else judge
    r1 = fn(body["case"])
    _CONFIRMED["n"] = 0
    r2 = fn(body["case"])
    assert r1["outcome"] == r2["outcome"], "replay is not deterministic"
    for v in r1["viol"]:
        print("violation key=%s: %s" % (v["key"], v["msg"]))
    print("replayed: outcome=%s violations=%d" % (r1["outcome"], len(r1["viol"])))
    return 1 if r1["viol"] else 0
