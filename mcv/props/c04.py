"""C04 - activity-coefficient models are thermodynamically consistent.

E1: mixture x model x temperature x mole fraction.  (a) pure-component limits; (b) Gibbs-Duhem by
Richardson-extrapolated central differences; (c) NRTL with vanishing parameters is Raoult's law
exactly; (d) partial pressure = x gamma Psat, bit-identical for mass- and mole-fraction input.
UNIQUAC gamma_2 carries known finding K1 (see mcv/k1.py): each UNIQUAC case is classified
holds / K1-signature / other, and Gibbs-Duhem is additionally enforced on (gamma_1, mirror gamma_1).
"""
import math

from .. import core, k1, universe as U

ID = "C04"
H = 2e-3
ACT = U.pyvaporation.mixtures.mixture.calculate_activity_coefficients


def mixture_for(spec):
    if isinstance(spec, str):
        return U.get_mixture(spec)
    kind, params = spec
    base = U.get_mixture("S2" if kind == "nrtl" else "S1")
    if kind == "nrtl":
        return U.Mixture(name="L", first_component=base.first_component, second_component=base.second_component,
                         nrtl_params=U.NRTLParameters(**params), uniquac_params=base.uniquac_params)
    return U.Mixture(name="L", first_component=base.first_component, second_component=base.second_component,
                     nrtl_params=base.nrtl_params, uniquac_params=U.UNIQUACParameters(**params))


def lng(mix, t, x, model, which, mirror=False):
    if mirror:  # ln of the twin's gamma_1 at 1-x: what gamma_2 must be by symmetry
        g = ACT(temperature=t, mixture=U.swap_mixture(mix), composition=U.Composition(p=1 - x, type="molar"), calculation_type=model)
        return math.log(float(g[0]))
    g = ACT(temperature=t, mixture=mix, composition=U.Composition(p=x, type="molar"), calculation_type=model)
    return math.log(float(g[which]))


def deriv(f, x):
    """Richardson-extrapolated central difference and an estimate of its own truncation error
    (difference between the extrapolations at h and h/2), so an unconverged derivative is never judged tightly."""
    def cd(h):
        return (f(x + h) - f(x - h)) / (2 * h)
    c1, c2, c4 = cd(H), cd(H / 2), cd(H / 4)
    r1 = (4 * c2 - c1) / 3
    r2 = (4 * c4 - c2) / 3
    return r2, abs(r2 - r1)


def gibbs_duhem(mix, t, x, model, mirror2=False):
    d1, e1 = deriv(lambda z: lng(mix, t, z, model, 0), x)
    d2, e2 = deriv(lambda z: lng(mix, t, z, model, 1, mirror=mirror2), x)
    res = x * d1 + (1 - x) * d2
    scale = abs(x * d1) + abs((1 - x) * d2)
    return res, scale, 4 * (x * e1 + (1 - x) * e2)


def judge(case):
    mix = mixture_for(case["mixture"])
    model, t, x = case["model"], case["T"], case["x"]
    v = []
    kclass = None
    if case["what"] == "limit":
        # gamma_i -> 1 as component i becomes pure: |ln gamma_i| must shrink at least linearly along
        # eps = 1e-2, 1e-3, 1e-4 and the end point itself (UNIQUAC evaluates it 1e-5 inside by design)
        which = 0 if x == 1.0 else 1

        def lg(eps):
            xx = 1.0 - eps if which == 0 else eps
            gg = ACT(temperature=t, mixture=mix, composition=U.Composition(p=xx, type="molar"), calculation_type=model)
            return abs(math.log(float(gg[which])))

        seq = [lg(1e-2), lg(1e-3), lg(1e-4), lg(0.0)]
        if not all(math.isfinite(z) for z in seq):
            v.append(core.viol("C04/pure_limit/" + model, "ln gamma of the nearly pure component is not finite: %r" % (seq,)))
        elif not (seq[1] <= 0.2 * seq[0] + 1e-7 and seq[2] <= 0.2 * seq[1] + 1e-7 and seq[3] <= 0.2 * seq[2] + 1e-7):
            v.append(core.viol("C04/pure_limit/" + model, "|ln gamma_%d| does not vanish as the component becomes pure: %r at 1e-2, 1e-3, 1e-4, 0 from pure" % (which + 1, seq)))
        # partial pressures at the exactly pure composition: the absent component contributes exactly nothing, the present
        # one x * gamma * Psat with x = 1 (both bases)
        for basis in ("molar", "weight"):
            st_p, pp_ = core.call(U.pyvaporation.get_partial_pressures, t, mix, U.Composition(p=x, type=basis), model)
            if st_p != "ok":
                continue
            absent, present = (1, 0) if x == 1.0 else (0, 1)
            comp_p = mix.first_component if present == 0 else mix.second_component
            gp = ACT(temperature=t, mixture=mix, composition=U.Composition(p=x, type="molar"), calculation_type=model)
            want = float(gp[present]) * float(comp_p.get_vapor_pressure(t))
            if not math.isfinite(float(gp[absent])):
                continue  # an infinite activity coefficient of the absent component (K1 overflow) times zero is NaN: not judged
            if float(pp_[absent]) != 0.0 or (math.isfinite(want) and not core.close(float(pp_[present]), want, core.ULP)):
                v.append(core.viol("C04/partial_pressure/pure/" + model, "pure composition x1=%r (%s): partial pressures %r, expected 0 for the absent component and gamma*Psat = %r for the present one" % (
                    x, basis, (float(pp_[0]), float(pp_[1])), want)))
                break
        return core.result("limit", digest=core.digest_of([core.fhex(z) for z in seq]), viol=v, sample={"abs_ln_gamma": seq})
    g = ACT(temperature=t, mixture=mix, composition=U.Composition(p=x, type="molar"), calculation_type=model)
    g = (float(g[0]), float(g[1]))
    if case["what"] == "trace":
        # trace compositions: only the partial-pressure clause (x gamma Psat; mass- vs mole-fraction input), relative comparison
        w = U.exact_to_weight(x, mix.first_component.molecular_weight, mix.second_component.molecular_weight)
        pm = U.pyvaporation.get_partial_pressures(t, mix, U.Composition(p=x, type="molar"), model)
        pw = U.pyvaporation.get_partial_pressures(t, mix, U.Composition(p=w, type="weight"), model)
        ps = (float(mix.first_component.get_vapor_pressure(t)), float(mix.second_component.get_vapor_pressure(t)))
        ref = (x * g[0] * ps[0], (1 - x) * g[1] * ps[1])
        if all(math.isfinite(z) for z in g) and not all(core.close(float(pm[i]), ref[i], core.ULP) or pm[i] == ref[i] for i in (0, 1)):
            v.append(core.viol("C04/partial_pressure/" + model, "trace composition x1=%r: partial pressures %r, x*gamma*Psat = %r" % (x, (float(pm[0]), float(pm[1])), ref)))
        if all(math.isfinite(float(z)) for z in pm) and not all(core.close(float(pw[i]), float(pm[i]), 1e-7) for i in (0, 1)):
            v.append(core.viol("C04/basis/" + model, "trace composition: partial pressures differ between mole fraction %r and the equivalent mass fraction %r: %r vs %r" % (
                x, w, (float(pm[0]), float(pm[1])), (float(pw[0]), float(pw[1])))))
        return core.result("trace", digest=core.digest_of([core.fhex(float(pm[0])), core.fhex(float(pm[1]))]), viol=v)
    if model == "NRTL" and not all(math.isfinite(z) and z > 0 for z in g):
        return core.result("nonfinite", viol=[core.viol("C04/nonfinite/" + model, "activity coefficients %r" % (g,))])
    mirror2 = False
    g_sym = g
    if model == "UNIQUAC":
        kclass, detail = k1.classify(mix, t, x)
        if kclass == "K1":
            v.append(core.viol("C04/gibbs_duhem/UNIQUAC", "UNIQUAC gamma_2 = %r is not the mirror image %r of gamma_1 (mistyped residual bracket)" % (
                g[1], detail["gamma2_by_symmetry"]), known=k1.KEY, **detail))
            g_sym = (g[0], detail["gamma2_by_symmetry"])
            mirror2 = True
        elif kclass == "other":
            v.append(core.viol("C04/uniquac_gamma2", "UNIQUAC gamma_2 = %r is neither the mirror image of gamma_1 (%r) nor what the documented typo predicts (%r)" % (
                g[1], detail.get("gamma2_by_symmetry"), detail.get("gamma2_predicted_by_K1")), **detail))
            mirror2 = True
    if not all(math.isfinite(z) and z > 0 for z in g_sym):
        v.append(core.viol("C04/nonfinite/" + model, "activity coefficients %r" % (g_sym,)))
        return core.result("nonfinite", viol=v)
    res, scale, fd_err = gibbs_duhem(mix, t, x, model, mirror2=mirror2)
    if not abs(res) <= core.FD * scale + fd_err + 1e-9:
        v.append(core.viol("C04/gibbs_duhem/" + model + ("/gamma_1" if mirror2 else ""),
                           "Gibbs-Duhem residual %.3e (term scale %.3e) at x1=%r T=%r" % (res, scale, x, t)))
    # (c) Raoult limit
    n = mix.nrtl_params
    if model == "NRTL" and n.g12 == 0 and n.g21 == 0 and (n.a12 or 0) == 0 and (n.a21 or 0) == 0:
        if not (g[0] == 1.0 and g[1] == 1.0):
            v.append(core.viol("C04/raoult", "NRTL with vanishing parameters gives gamma=%r" % (g,)))
    # (d) partial pressures
    comp_m = U.Composition(p=x, type="molar")
    w = U.exact_to_weight(x, mix.first_component.molecular_weight, mix.second_component.molecular_weight)
    comp_w = U.Composition(p=w, type="weight")
    pm = U.pyvaporation.get_partial_pressures(t, mix, comp_m, model)
    ps = (float(mix.first_component.get_vapor_pressure(t)), float(mix.second_component.get_vapor_pressure(t)))
    ref = (x * g[0] * ps[0], (1 - x) * g[1] * ps[1])
    if not all(core.close(float(pm[i]), ref[i], core.ULP) or (pm[i] == ref[i]) for i in (0, 1)):
        v.append(core.viol("C04/partial_pressure/" + model, "partial pressures %r, x*gamma*Psat = %r" % ((float(pm[0]), float(pm[1])), ref)))
    pw = U.pyvaporation.get_partial_pressures(t, mix, comp_w, model)
    pw2 = U.pyvaporation.get_partial_pressures(t, mix, comp_w.to_molar(mix), model)
    if not all(core.bit_eq(pw[i], pw2[i]) for i in (0, 1)):
        v.append(core.viol("C04/basis/" + model, "partial pressures differ between a mass fraction and its own molar image: %r vs %r" % (pw, pw2)))
    # the same weight-typed Composition OBJECT used with another mixture first, then with this one: same answer
    other_mix = U.get_mixture("H2O_iPOH" if mix.name != "H2O_iPOH" else "MeOH_DMC")
    shared = U.Composition(p=w, type="weight")
    core.call(U.pyvaporation.get_partial_pressures, t, other_mix, shared, "NRTL")
    st_s, ps_ = core.call(U.pyvaporation.get_partial_pressures, t, mix, shared, model)
    if st_s != "ok" or not all(core.bit_eq(ps_[i], pw[i]) for i in (0, 1)):
        v.append(core.viol("C04/basis/reused_composition/" + model, "a mass-fraction Composition object that was first used with another mixture gives partial pressures %r, a fresh one %r" % (ps_, pw)))
    # activity coefficients asked directly with the mass-fraction composition: same mixture state, same coefficients
    st_g, gw = core.call(ACT, temperature=t, mixture=mix, composition=U.Composition(p=w, type="weight"), calculation_type=model)
    if st_g != "ok" or not all(core.close(float(gw[i]), g[i], 1e-9) or (math.isinf(g[i]) and float(gw[i]) == g[i]) for i in (0, 1)):
        v.append(core.viol("C04/basis/activity_coefficients/" + model, "activity coefficients at mass fraction %r are %r, at the equivalent mole fraction %r they are %r" % (w, gw, x, g)))
    # the caller edits an existing Mixture object in place (a component replaced, parameters replaced): pressures and coefficients
    # must be those of a freshly built mixture with the edited content
    if not isinstance(case["mixture"], str) or case["mixture"].startswith("S"):
        donor = U.get_mixture("S4" if getattr(mix, "name", "") != "S4" else "S2")
        edited = U.Mixture(name=mix.name, first_component=donor.first_component, second_component=donor.second_component,
                           nrtl_params=donor.nrtl_params, uniquac_params=donor.uniquac_params)
        core.call(U.pyvaporation.get_partial_pressures, t, edited, comp_m, model if U.has_model(edited, model) else "NRTL")
        core.call(ACT, temperature=t, mixture=edited, composition=comp_m, calculation_type=model if U.has_model(edited, model) else "NRTL")
        edited.first_component, edited.second_component = mix.first_component, mix.second_component
        edited.nrtl_params, edited.uniquac_params = mix.nrtl_params, mix.uniquac_params
        st_e, pe = core.call(U.pyvaporation.get_partial_pressures, t, edited, U.Composition(p=x, type="molar"), model)
        st_w, pew = core.call(U.pyvaporation.get_partial_pressures, t, edited, U.Composition(p=w, type="weight"), model)
        if st_e != "ok" or st_w != "ok" or not all(core.bit_eq(pe[i], pm[i]) and core.bit_eq(pew[i], pw[i]) for i in (0, 1)):
            v.append(core.viol("C04/stale_after_mixture_edited/" + model, "a Mixture object whose components and parameters were replaced in place gives partial pressures %r / %r, "
                               "a freshly built mixture with the same content %r / %r" % (pe, pew, pm, pw)))
    if not all(core.close(float(pw[i]), float(pm[i]), 1e-9) for i in (0, 1)):
        v.append(core.viol("C04/basis/" + model, "partial pressures differ between mole fraction %r and the equivalent mass fraction %r: %r vs %r" % (x, w, pm, pw)))
    return core.result("judged" + ("" if kclass is None else ":" + kclass), digest=core.digest_of([core.fhex(g[0]), core.fhex(g[1])]), viol=v,
                       max_gd_residual=abs(res) / (scale + 1e-300), sample={"gamma": g, "gd": res})


def mixtures(tier):
    out = list(U.ALL_MIXTURES)
    vals = {"g12": (-2500.0, 0.0, 4200.0), "g21": (-900.0, 0.0, 3100.0), "alpha12": (0.0, 0.3), "alpha21": (None, 0.47),
            "a12": (-0.4, 0.0, 0.6), "a21": (0.0, 0.35)}
    import itertools
    keys = list(vals)
    lat = [dict(zip(keys, c)) for c in itertools.product(*(vals[k] for k in keys))]
    if tier == "quick":
        lat = lat[::11]
    out += [("nrtl", p) for p in lat]
    # strongly non-ideal but valid parameter sets (gamma at infinite dilution of 1e4..1e9, and strong negative deviations):
    # an overflow guard or cap on ln(gamma) is active only here
    out += [("nrtl", dict(g12=9000.0, g21=24000.0, alpha12=0.3, alpha21=None, a12=0.0, a21=0.0)),
            ("nrtl", dict(g12=17000.0, g21=6500.0, alpha12=0.25, alpha21=0.4, a12=0.3, a21=-0.2)),
            ("nrtl", dict(g12=-16000.0, g21=-11000.0, alpha12=0.2, alpha21=None, a12=0.0, a21=0.0))]
    uv = {"alpha_12": (-80.0, 0.0, 150.0), "alpha_21": (-60.0, 120.0), "beta_12": (-1200.0, 0.0, 1500.0), "beta_21": (-700.0, 2400.0)}
    ukeys = list(uv)
    ulat = [dict(zip(ukeys, c), z=10) for c in itertools.product(*(uv[k] for k in ukeys))]
    if tier == "quick":
        ulat = ulat[::5]
    out += [("uniquac", p) for p in ulat]
    return out


def main(tier, seed):
    q = tier == "quick"
    rep = core.Report(
        ID, "exploration", tier, seed,
        rule="every (mixture incl. a lattice of synthetic interaction parameters, model, temperature, mole fraction) of the "
             "finite product is evaluated; non-trivial = all applicable oracles evaluated; distinct = distinct (gamma_1, gamma_2) bits",
        assumptions=["Gibbs-Duhem judged at relative 1e-6 of the term scale through Richardson central differences (h=2e-3)",
                     "Component.get_vapor_pressure taken as given"],
        technique="bounded exhaustive enumeration; identities checked by extrapolated finite differences; known-finding signature test")
    xs = core.lat([0.02 + 0.04 * i for i in range(25)], seed)
    if q:
        xs = xs[::3]
    temps = core.lat([273.15, 293.15, 313.15, 333.15, 353.15, 373.15, 400.0], seed)
    if q:
        temps = temps[::3]
    mx = mixtures(tier)

    def ok(c):
        m = mixture_for(c["mixture"])
        if not U.has_model(m, c["model"]):
            return False
        if not isinstance(c["mixture"], str) and c["mixture"][0] != c["model"].lower():
            return False
        return True

    core.run_space(rep, core.Space("interior", {"what": ["interior"], "mixture": mx, "model": ["NRTL", "UNIQUAC"], "T": temps, "x": xs}, ok), judge)
    core.run_space(rep, core.Space("trace_compositions", {"what": ["trace"], "mixture": mx if not q else mx[:16], "model": ["NRTL", "UNIQUAC"], "T": temps,
                                                         "x": [1.234567e-9, 3.21987e-8, 1.23456789e-6, 1 - 1.23456789e-6, 1 - 3.21987e-8]}, ok), judge)
    core.run_space(rep, core.Space("limits", {"what": ["limit"], "mixture": mx, "model": ["NRTL", "UNIQUAC"], "T": temps, "x": [0.0, 1.0]}, ok), judge)
    return rep.finish()


def replay(body):
    r = judge(body["case"])
    for v in r["viol"]:
        print("violation key=%s%s: %s" % (v["key"], " [known %s]" % v["known"] if v["known"] else "", v["msg"]))
    print("replayed: outcome=%s violations=%d" % (r["outcome"], len(r["viol"])))
    return 1 if any(not v["known"] for v in r["viol"]) else 0
