"""C08 - all entry points answer the same question identically (incl. model choice).

E1 + E2: for every (mixture, model, permeate mode, feed state, precision) the quintuple {solver,
permeate-composition helper, separation-factor helper, one-point ideal curve, step 0 of the ideal
process models} must report the same fluxes (bit-identical: same computation on the same floats)
and consistent derived quantities; every step of every process trace must equal a standalone flux
calculation at that step's reported state (bit-identical).  A model-sensitivity guard keeps the
"honours the model" part observable: states where NRTL and UNIQUAC differ by > 1e-3.
"""
import math

from .. import core, solver, traces, universe as U
from . import spaces

ID = "C08"


def mkpv(mem, mix):
    """observing subclass with an evaluation budget: a flux calculation needing more than 20000 evaluations raises
    solver.Budget on every entry point alike (they run the same iteration), so such states are simply not judged."""
    return solver.ObservedPV(membrane=mem, mixture=mix).observe(budget=20000, detect=False)


def same_number(a, b, tol_abs):
    if math.isinf(a) or math.isinf(b) or math.isnan(a) or math.isnan(b):
        return (math.isnan(a) and math.isnan(b)) or a == b
    return abs(a - b) <= tol_abs


def sep_factor(y, x):
    return (y / (1 - y)) / (x / (1 - x))


def judge_entry(case):
    mix = U.get_mixture(case["mixture"])
    t, x, model, prec = case["T"], case["x"], case["model"], case["precision"]
    mode = tuple(case["mode"]) if case["mode"] != "vac" else "vac"
    kw = U.permeate_kwargs(mode, t)
    comp = U.composition(x, case["basis"], mix)
    mem = U.make_membrane(mix, case["P"][0], case["P"][1], t_ref=t, ea1=25000.0, ea2=60000.0)
    pv = mkpv(mem, mix)
    st, J = core.call(pv.calculate_partial_fluxes, feed_temperature=t, composition=comp, precision=prec, calculation_type=model, **kw)
    if st != "ok":
        return core.result("solver-raised", nontrivial=False)
    J = (float(J[0]), float(J[1]))
    if not (J[0] >= 0 and J[1] >= 0 and J[0] + J[1] > 0):
        return core.result("solver-backflow", nontrivial=False)  # a negative flux: the helpers legitimately reject its "composition"
    other = "UNIQUAC" if model == "NRTL" else "NRTL"
    Jo = None
    if U.has_model(mix, other):
        so, Jo = core.call(pv.calculate_partial_fluxes, feed_temperature=t, composition=comp, precision=prec, calculation_type=other, **kw)
        Jo = (float(Jo[0]), float(Jo[1])) if so == "ok" else None
    sensitive = Jo is not None and max(core.relerr(J[i], Jo[i]) for i in (0, 1)) > 1e-3
    y = J[0] / (J[0] + J[1])
    v = []
    # order of questions: the same object asked with the OTHER model first must still honour the requested model
    if U.has_model(mix, other):
        pv_b = mkpv(mem, mix)
        core.call(pv_b.calculate_partial_fluxes, feed_temperature=t, composition=comp, precision=prec, calculation_type=other, **kw)
        sb, Jb = core.call(pv_b.calculate_partial_fluxes, feed_temperature=t, composition=comp, precision=prec, calculation_type=model, **kw)
        if sb != "ok" or not all(core.bit_eq(Jb[i], J[i]) for i in (0, 1)):
            v.append(core.viol("C08/model_not_honoured/after_other_model", "flux calculation asked for %s right after the same state was asked with %s on the same object returns %r, a fresh object returns %r" % (
                model, other, Jb if sb != "ok" else (float(Jb[0]), float(Jb[1])), J)))
        for name, f in (("permeate_composition", pv_b.calculate_permeate_composition), ("separation_factor", pv_b.calculate_separation_factor)):
            pv_c = mkpv(mem, mix)
            f_c = getattr(pv_c, f.__name__)
            s1, r1 = core.call(f_c, feed_temperature=t, composition=comp, precision=prec, calculation_type=other, **kw)
            s2, r2 = core.call(f_c, feed_temperature=t, composition=comp, precision=prec, calculation_type=model, **kw)
            s3, r3 = core.call(getattr(mkpv(mem, mix), f.__name__), feed_temperature=t, composition=comp, precision=prec, calculation_type=model, **kw)
            if s2 == "ok" and s3 == "ok" and not core.bit_eq(float(getattr(r2, "p", r2)), float(getattr(r3, "p", r3))):
                v.append(core.viol("C08/model_not_honoured/after_other_model/" + name, "%s asked for %s after %s on the same object gives %r, on a fresh object %r" % (
                    name, model, other, float(getattr(r2, "p", r2)), float(getattr(r3, "p", r3)))))
    # the solver itself must honour the model on BOTH sides of the membrane (cross-comparison of entry points cannot
    # see a slip in shared code): observe the last permeate composition through the seam and recompute the driving force
    if mode != "vac" and mode[0] == "T":
        opv = solver.ObservedPV(membrane=mem, mixture=mix).observe(budget=50000, detect=False)
        so2, J2 = core.call(opv.calculate_partial_fluxes, feed_temperature=t, composition=comp, precision=prec, calculation_type=model, **kw)
        if so2 == "ok" and opv._last_y is not None:
            perm = (float(mem.get_permeance(t, mix.first_component).value), float(mem.get_permeance(t, mix.second_component).value))
            pf = U.pyvaporation.get_partial_pressures(t, mix, comp, model)

            def residual(side_model):
                pp = U.pyvaporation.get_partial_pressures(kw["permeate_temperature"], mix, opv._last_y, side_model)
                return max(abs(float(J2[i]) - perm[i] * (float(pf[i]) - float(pp[i]))) / (perm[i] * (abs(float(pf[i])) + abs(float(pp[i]))) + 1e-300) for i in (0, 1))

            if residual(model) > 1e-9:
                if U.has_model(mix, other) and residual(other) <= 1e-9:
                    v.append(core.viol("C08/model_not_honoured/solver_permeate_side", "flux calculation asked for %s evaluates the permeate side with %s" % (model, other)))
                else:
                    v.append(core.viol("C08/solver_driving_force", "returned fluxes are not permeance x (feed - permeate partial pressure) with model %s on both sides (residual %.3g)" % (model, residual(model))))

    def mismatch(name, got, want, key="entry_points_disagree"):
        if Jo is not None and sensitive and want is J and all(core.bit_eq(got[i], Jo[i]) for i in (0, 1)):
            v.append(core.viol("C08/model_not_honoured/" + name, "%s was asked for %s but reports the %s fluxes %r (solver: %r)" % (name, model, other, got, J)))
        else:
            v.append(core.viol("C08/%s/%s" % (key, name), "%s reports %r, standalone flux calculation %r" % (name, got, want)))

    # permeate-composition helper
    st, yh = core.call(pv.calculate_permeate_composition, feed_temperature=t, composition=comp, precision=prec, calculation_type=model, **kw)
    if st != "ok":
        v.append(core.viol("C08/helper_raises/permeate_composition", "solver returns but the helper raises %r" % (yh,)))
    else:
        if yh.type != "weight":
            v.append(core.viol("C08/permeate_basis/permeate_composition", "helper reports a %s fraction" % yh.type))
        if not core.close(float(yh.p), y, core.ULP):
            yo = Jo[0] / (Jo[0] + Jo[1]) if Jo else None
            if sensitive and yo is not None and core.close(float(yh.p), yo, core.ULP):
                v.append(core.viol("C08/model_not_honoured/permeate_composition", "helper asked for %s reports the %s permeate composition %r (solver: %r)" % (model, other, float(yh.p), y)))
            else:
                v.append(core.viol("C08/entry_points_disagree/permeate_composition", "helper reports %r, flux1/(flux1+flux2) of the solver = %r" % (float(yh.p), y)))
    # separation-factor helper
    xm = U.mass_fraction(comp, mix)
    st, sf = core.call(pv.calculate_separation_factor, feed_temperature=t, composition=comp, precision=prec, calculation_type=model, **kw)
    # the helper reports (x2/x1)/(y2/y1): the factor of the *first* component, same definition as curve/process
    want_sf = sep_factor(y, xm)
    if st != "ok":
        v.append(core.viol("C08/helper_raises/separation_factor", "solver returns but the helper raises %r" % (sf,)))
    elif not core.close(float(sf), want_sf, 1e-11):
        sfo = sep_factor(Jo[0] / (Jo[0] + Jo[1]), xm) if Jo else None
        if sensitive and sfo is not None and core.close(float(sf), sfo, 1e-11):
            v.append(core.viol("C08/model_not_honoured/separation_factor", "helper asked for %s reports the %s separation factor %r (expected %r)" % (model, other, float(sf), want_sf)))
        else:
            v.append(core.viol("C08/separation_factor/helper", "separation factor %r, (y1/y2)/(x1/x2) in mass basis = %r" % (float(sf), want_sf)))
    # one-point ideal curve
    st, curve = core.call(pv.ideal_diffusion_curve, feed_temperature=t, compositions=[comp], precision=prec, calculation_type=model, **kw)
    if st != "ok":
        v.append(core.viol("C08/helper_raises/ideal_curve", "solver returns but the curve raises %r" % (curve,)))
    else:
        Jc = (float(curve.partial_fluxes[0][0]), float(curve.partial_fluxes[0][1]))
        if not all(core.bit_eq(Jc[i], J[i]) for i in (0, 1)):
            mismatch("ideal_curve", Jc, J)
        else:
            if not core.close(float(curve.permeate_composition[0].p), y, core.ULP):
                v.append(core.viol("C08/permeate_composition/ideal_curve", "curve reports %r, flux ratio %r" % (float(curve.permeate_composition[0].p), y)))
            if not core.close(float(curve.get_separation_factor[0]), want_sf, 1e-11):
                v.append(core.viol("C08/separation_factor/ideal_curve", "curve separation factor %r, (y1/y2)/(x1/x2) in mass basis = %r" % (float(curve.get_separation_factor[0]), want_sf)))
            psi = float(curve.get_psi[0])
            if not same_number(psi, (J[0] + J[1]) * (want_sf - 1), 1e-11 * abs(J[0] + J[1]) * (abs(want_sf) + 1)):
                v.append(core.viol("C08/psi/ideal_curve", "curve PSI %r, total flux x (separation factor - 1) = %r" % (psi, (J[0] + J[1]) * (want_sf - 1))))
    # step 0 of the ideal process models
    cond = U.Conditions(membrane_area=0.05, initial_feed_temperature=t, initial_feed_amount=50.0, initial_feed_composition=comp,
                        permeate_temperature=kw.get("permeate_temperature"), permeate_pressure=kw.get("permeate_pressure"))
    # ... the same Conditions object is first handed to a model of ANOTHER mixture (it must come back untouched)
    omix = U.get_mixture("H2O_iPOH" if mix.name != "H2O_iPOH" else "MeOH_DMC")
    opv = mkpv(U.make_membrane(omix, case["P"][0], case["P"][1], t_ref=t, ea1=25000.0, ea2=60000.0), omix)
    core.call(opv.ideal_isothermal_process, number_of_steps=1, delta_hours=0.1, conditions=cond, precision=prec, calculation_type="NRTL")
    core.call(opv.ideal_non_isothermal_process, number_of_steps=1, delta_hours=0.1, conditions=cond, precision=prec, calculation_type="NRTL")
    for name, f in (("ideal_iso", pv.ideal_isothermal_process), ("ideal_noniso", pv.ideal_non_isothermal_process)):
        st, pm = core.call(f, number_of_steps=1, delta_hours=0.1, conditions=cond, precision=prec, calculation_type=model)
        if st != "ok":
            continue  # may raise for its own reasons (C01 judges spurious raises)
        Jp = (float(pm.partial_fluxes[0][0]), float(pm.partial_fluxes[0][1]))
        if case["basis"] == "weight":
            if not all(core.bit_eq(Jp[i], J[i]) for i in (0, 1)):
                mismatch(name, Jp, J)
        else:
            # the model converts the molar feed to a mass fraction first: same state, last-bit different floats
            tol = 1e-11 if mode == "vac" else 20 * prec + 1e-9
            if not all(core.close(Jp[i], J[i], tol) for i in (0, 1)):
                mismatch(name, Jp, J)
    return core.result("judged" + (":model-sensitive" if sensitive else ""), nontrivial=True,
                       digest=core.digest_of([core.fhex(J[0]), core.fhex(J[1]), model]), viol=v, model_sensitive=1 if sensitive else 0,
                       sample={"J": J, "other_model_J": Jo})


def judge_pure(case):
    """pure feeds (fraction exactly 0 or 1, either basis): the ideal curve - one point, or the pure point among others - reports the
    standalone solver's fluxes in every permeate mode; the permeate-composition helper agrees where it returns."""
    mix = U.get_mixture(case["mixture"])
    t, x, model, prec = case["T"], case["x"], case["model"], 5e-5
    mode = tuple(case["mode"]) if case["mode"] != "vac" else "vac"
    kw = U.permeate_kwargs(mode, t)
    mem = U.make_membrane(mix, case["P"][0], case["P"][1], t_ref=t, ea1=25000.0, ea2=60000.0)
    pv = mkpv(mem, mix)
    st, J = core.call(pv.calculate_partial_fluxes, feed_temperature=t, composition=U.Composition(p=x, type=case["basis"]), precision=prec, calculation_type=model, **kw)
    if st != "ok":
        return core.result("solver-raised", nontrivial=False)
    J = (float(J[0]), float(J[1]))
    v = []
    for comps_, idx in (([U.Composition(p=x, type=case["basis"])], 0), ([U.Composition(p=0.4, type=case["basis"]), U.Composition(p=x, type=case["basis"])], 1)):
        sc, c = core.call(pv.ideal_diffusion_curve, feed_temperature=t, compositions=comps_, precision=prec, calculation_type=model, **kw)
        if sc != "ok":
            continue  # the curve may reject what it cannot invert (no driving force for the absent component)
        Jc = (float(c.partial_fluxes[idx][0]), float(c.partial_fluxes[idx][1]))
        if not (core.bit_eq(Jc[0], J[0]) and core.bit_eq(Jc[1], J[1])):
            v.append(core.viol("C08/entry_points_disagree/ideal_curve_pure_feed", "pure feed x=%r (%s), mode %r: the solver reports fluxes %r, point %d of a %d-point ideal curve %r" % (
                x, case["basis"], mode, J, idx, len(comps_), Jc)))
            break
    return core.result("judged", digest=core.digest_of([core.fhex(J[0]), core.fhex(J[1])]), viol=v)


def judge_mixed_curve(case):
    """a hand-built curve whose feed points are stated in different bases (any order): every separation factor and PSI is
    (y1/y2)/(x1/x2) with feed and permeate in ONE basis; flux containers may be lists, tuples or numpy arrays."""
    import numpy
    mix = U.get_mixture(case["mixture"])
    m1, m2 = mix.first_component.molecular_weight, mix.second_component.molecular_weight
    xs_w = case["xs"]
    fl = [(0.031 * (1 + i), 0.0017 * (2 + i) ** 2) for i in range(len(xs_w))]
    comps = [U.Composition(p=(xw if b_ == "weight" else U.exact_to_molar(xw, m1, m2)), type=b_) for xw, b_ in zip(xs_w, case["bases"])]
    fluxes = fl if case["container"] == "tuples" else ([list(f) for f in fl] if case["container"] == "lists" else numpy.array(fl))
    st, c = core.call(U.DiffusionCurve, mixture=mix, membrane_name="M", feed_temperature=333.15, feed_compositions=comps, partial_fluxes=fluxes)
    if st != "ok":
        return core.result("raised", nontrivial=False)
    st1, sf = core.call(lambda: [float(z) for z in c.get_separation_factor])
    st2, ps = core.call(lambda: [float(z) for z in c.get_psi])
    v = []
    for i, xw in enumerate(xs_w):
        y = fl[i][0] / (fl[i][0] + fl[i][1])
        want = sep_factor(y, xw)
        if st1 == "ok" and not core.close(sf[i], want, 1e-9):
            v.append(core.viol("C08/separation_factor/mixed_basis_curve", "point %d (stated as %s, bases %r, fluxes as %s): separation factor %r, (y1/y2)/(x1/x2) in mass fractions = %r" % (
                i, case["bases"][i], case["bases"], case["container"], sf[i], want)))
            break
        tot = fl[i][0] + fl[i][1]
        if st2 == "ok" and not core.close(ps[i], tot * (want - 1), 1e-9):
            v.append(core.viol("C08/psi/mixed_basis_curve", "point %d (stated as %s, bases %r, fluxes as %s): PSI %r, total flux x (separation factor - 1) = %r" % (
                i, case["bases"][i], case["bases"], case["container"], ps[i], tot * (want - 1))))
            break
    return core.result("judged", digest=core.digest_of(case), viol=v)


def judge_trace(case):
    setup = traces.Setup(case)
    st, pm = setup.run()
    if st != "ok":
        return core.result("raised", nontrivial=False)
    try:
        tr = traces.extract(pm)
        sfs = [float(z) for z in pm.get_separation_factor]
        psis = [float(z) for z in pm.get_psi]
    except Exception as e:  # noqa: BLE001
        return core.result("malformed", viol=[core.viol("C08/malformed_result/" + setup.kind, "%r" % (e,))])
    v = []
    if setup.init_perm is not None and tr["n"] >= 1:
        # the caller SUPPLIED the initial permeances (possibly in another unit per component): step 0 must be the standalone flux
        # calculation with those very permeances (stated by the harness in kg/(m2 h kPa), converted exactly to the case's units)
        sup = tuple(float(z) for z in case["init_perm"]["values"])
        st0, J0 = setup.solver(tr["T"][0], tr["x"][0], sup)
        if st0 == "ok" and not all(core.close(float(J0[i]), tr["J"][0][i], 1e-6, 1e-300) for i in (0, 1)):
            v.append(core.viol("C08/step0_vs_supplied_permeances/" + setup.kind, "step 0 reports fluxes %r; the standalone flux calculation with the supplied initial permeances %r (units %r) gives %r" % (
                tr["J"][0], sup, case["init_perm"].get("units", "kg/(m2*h*kPa)"), (float(J0[0]), float(J0[1])))))
    for k in range(tr["n"]):
        if v:
            break
        st, J = setup.solver(tr["T"][k], tr["x"][k], tr["P"][k])
        if st != "ok":
            v.append(core.viol("C08/step_vs_standalone/" + setup.kind, "step %d reports fluxes %r but the standalone flux calculation at the reported state raises %r" % (k, tr["J"][k], J)))
            break
        if setup.kind in traces.IDEAL:
            # ideal models: the permeance is a function of the membrane and the step's temperature alone, so a standalone
            # calculation that takes its permeances from the membrane must give the same fluxes
            kwm = U.permeate_kwargs(setup.mode, setup.t0)
            stm, Jm = core.call(setup.pv.calculate_partial_fluxes, feed_temperature=tr["T"][k], composition=U.Composition(p=tr["x"][k], type="weight"),
                                precision=setup.precision, calculation_type=setup.model, **kwm)
            if stm != "ok" or not (core.bit_eq(Jm[0], tr["J"][k][0]) and core.bit_eq(Jm[1], tr["J"][k][1])):
                v.append(core.viol("C08/step_vs_membrane/" + setup.kind, "step %d reports fluxes %r (permeances %r), a standalone flux calculation with the membrane's permeances at T=%r gives %r" % (
                    k, tr["J"][k], tr["P"][k], tr["T"][k], Jm if stm != "ok" else (float(Jm[0]), float(Jm[1])))))
                break
        if not (core.bit_eq(J[0], tr["J"][k][0]) and core.bit_eq(J[1], tr["J"][k][1])):
            v.append(core.viol("C08/step_vs_standalone/" + setup.kind, "step %d reports fluxes %r, standalone flux calculation at the reported state (T=%r, x=%r, P=%r) gives %r" % (
                k, tr["J"][k], tr["T"][k], tr["x"][k], tr["P"][k], (float(J[0]), float(J[1])))))
            break
        y = tr["J"][k][0] / (tr["J"][k][0] + tr["J"][k][1])
        if not core.close(tr["y"][k], y, core.ULP) or tr["y_type"][k] != "weight":
            v.append(core.viol("C08/permeate_composition/" + setup.kind, "step %d reports permeate composition %r (%s), flux ratio %r" % (k, tr["y"][k], tr["y_type"][k], y)))
            break
        if 0 < y < 1 and 0 < tr["x"][k] < 1:
            want = sep_factor(y, tr["x"][k])
            if not core.close(sfs[k], want, 1e-11):
                v.append(core.viol("C08/separation_factor/" + setup.kind, "step %d separation factor %r, (y1/y2)/(x1/x2) = %r" % (k, sfs[k], want)))
                break
            tot = tr["J"][k][0] + tr["J"][k][1]
            if not same_number(psis[k], tot * (want - 1), 1e-11 * abs(tot) * (abs(want) + 1)):
                v.append(core.viol("C08/psi/" + setup.kind, "step %d PSI %r, total flux x (separation factor - 1) = %r" % (k, psis[k], tot * (want - 1))))
                break
    return core.result("returned", digest=traces.trace_digest(tr), viol=v, states=tr["n"], transitions=max(tr["n"] - 1, 0), traces=1,
                       sample={"J": tr["J"][:2], "y": tr["y"][:2]})


def entry_space(tier, seed):
    q = tier == "quick"
    alph = {
        "mixture": ["H2O_EtOH", "MeOH_DMC", "S2", "S5"] if q else [m for m in U.ALL_MIXTURES if m != "S3"],
        "model": ["NRTL", "UNIQUAC"],
        "mode": ["vac", ("T", -60.0), ("p", 0.5)] if q else ["vac", ("T", 120.0), ("T", -60.0), ("T", -20.0), ("p", 0.5), ("p", 5.0)],
        "P": [(1e-2, 1e-4), (1e-4, 1e-2)],
        "x": core.lat([0.05, 0.3, 0.7, 0.95], seed) if q else core.lat([0.01, 0.05, 0.1, 0.3, 0.5, 0.7, 0.9, 0.95, 0.99], seed),
        "basis": ["weight", "molar"],
        "T": core.lat([313.15, 353.15], seed) if q else core.lat([293.15, 313.15, 333.15, 353.15, 373.15], seed),
        "precision": [5e-5, 1e-8],
    }
    return core.Space("entry_points", alph, lambda c: U.has_model(U.get_mixture(c["mixture"]), c["model"]))


def trace_spaces(tier, seed):
    q = tier == "quick"
    ideal = {
        "kind": ["ideal_iso", "ideal_noniso"], "mixture": ["H2O_EtOH", "S2"] if q else ["H2O_EtOH", "MeOH_DMC", "MeOH_Toluene", "S1", "S2", "S4"],
        "model": ["NRTL", "UNIQUAC"], "mode": ["vac", ("T", -20.0), ("p", 0.5)], "prog": ["none", "poly"],
        "area": [0.05, 1.0], "amount": [0.047, 50.0], "dt": core.lat([0.1, 2.0], seed), "steps": [4] if q else [3, 8],
        "x0": core.lat([0.1, 0.45, 0.9], seed), "basis": ["weight", "molar"], "T": core.lat([313.15, 353.15], seed),
        "P": [(1e-3, 2e-5)], "tref_offset": [0.0, -12.0], "exp_units": [U.Units.kg_m2_h_kPa, "SI"],
    }
    non = {
        "kind": ["nonideal_iso", "nonideal_noniso"], "mixture": ["H2O_EtOH", "S2"], "model": ["NRTL", "UNIQUAC"],
        "mode": ["vac", ("T", -20.0), ("p", 0.5)], "prog": ["none", "poly"],
        "curves": [spaces.CURVE_CONFIGS["one"], spaces.CURVE_CONFIGS["two"]], "init_perm": [None, {"values": (2.5e-2, 3.0e-5)}, {"values": (2.5e-2, 3.0e-5), "units": ["GPU", "SI"]}],
        "area": [0.05, 1.0], "amount": [0.047, 50.0], "dt": core.lat([0.1, 2.0], seed), "steps": [4] if q else [3, 8],
        "x0": core.lat([0.1, 0.45], seed), "basis": ["weight", "molar"], "T": [333.15, 318.15],
    }

    def ok(c):
        return U.has_model(U.get_mixture(c["mixture"]), c["model"]) and not (c["kind"] in traces.ISO and c["prog"] != "none")

    # membranes with several experiments per component, energies left unstated (regressed), in every unit; the programme carries the
    # feed across the mid-point between two experiment temperatures, so different steps have different nearest experiments
    multi = dict(ideal, kind=["ideal_noniso", "ideal_iso"], mixture=["H2O_EtOH", "S2"], model=["NRTL"], prog=["none", "poly"], area=[0.05], amount=[50.0], steps=[5],
                 ea=[(("fit", 25000.0), ("fit", 60000.0)), (25000.0, ("fit", 60000.0))], extra_temps_offsets=[(14.0,), (-9.0, 16.0)], T=[313.15, 335.0],
                 tref_offset=[0.0, -3.0], exp_units=[U.Units.kg_m2_h_kPa, "SI", "GPU"], basis=["weight"], x0=core.lat([0.1, 0.45], seed))
    return [core.Space("ideal_traces", ideal, ok), core.Space("ideal_traces_regressed_energies", multi, ok), core.Space("nonideal_traces", non, ok)]


def main(tier, seed):
    rep = core.Report(
        ID, "model_checking", tier, seed,
        rule="(i) every (mixture, model, mode, permeances, feed state, basis, precision) of the finite lattice is asked of five "
             "entry points and the answers compared; (ii) every step of every trace of a process lattice is compared with a "
             "standalone flux calculation at the reported state; non-trivial = judged; distinct = distinct flux bits; cases where "
             "NRTL and UNIQUAC differ by > 1e-3 are counted as model-sensitive",
        assumptions=["bit-identity is demanded where the entry points perform the same computation on the same floats",
                     "find_best_fit memoised (deep copies)"],
        technique="explicit-state trace conformance (every process step replayed against the standalone solver) plus exhaustive differential comparison of entry points")
    U.install_fit_memo()
    m = core.run_space(rep, entry_space(tier, seed), judge_entry)
    rep.note("model_sensitive_cases", m["extra"].get("model_sensitive", 0))
    pure = {"mixture": ["H2O_EtOH", "S2"] if tier == "quick" else ["H2O_EtOH", "MeOH_DMC", "S2", "S4", "S5"], "model": ["NRTL", "UNIQUAC"],
            "mode": ["vac", ("T", -60.0), ("p", 0.0), ("p", 0.5), ("p", 3.0)], "P": [(1e-2, 1e-4), (1e-4, 1e-2)], "x": [0.0, 1.0], "basis": ["weight", "molar"],
            "T": core.lat([313.15, 353.15], seed)}
    core.run_space(rep, core.Space("pure_feeds", pure, lambda c: U.has_model(U.get_mixture(c["mixture"]), c["model"])), judge_pure)
    import itertools
    mb = {"mixture": ["H2O_EtOH", "S2"], "xs": [core.lat([0.2, 0.6, 0.85], seed)], "bases": [list(b_) for b_ in itertools.product(["weight", "molar"], repeat=3)],
          "container": ["tuples", "lists", "numpy"]}
    core.run_space(rep, core.Space("mixed_basis_curve_metrics", mb), judge_mixed_curve)
    for sp in trace_spaces(tier, seed):
        spaces.prewarm(sp)
        core.run_space(rep, sp, judge_trace)
    return rep.finish()


def replay(body):
    U.install_fit_memo()
    fn = judge_entry if body["space"] == "entry_points" else (judge_pure if body["space"] == "pure_feeds" else (judge_mixed_curve if body["space"] == "mixed_basis_curve_metrics" else judge_trace))
    r = fn(body["case"])
    for v in r["viol"]:
        print("violation key=%s: %s" % (v["key"], v["msg"]))
    print("replayed: outcome=%s violations=%d" % (r["outcome"], len(r["viol"])))
    return 1 if r["viol"] else 0
