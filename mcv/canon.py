"""Canonical, deep, order-preserving, type-tagged serialisation of the "world" for the history
explorer (E3).  Two worlds with equal canon() are equal in every field of every reachable object:
floats by float.hex, numpy arrays by dtype + shape + bytes, attrs objects field by field, lists in
order; plus the library's class-level singletons and the attrs defaults of its classes.
"""
import hashlib
import json
import pathlib

import attr
import numpy
import pandas

from . import universe as U


def ser(o, depth=0):
    if depth > 60:
        raise ValueError("object graph too deep")
    if o is None:
        return None
    if isinstance(o, bool):
        return ["b", o]
    if isinstance(o, int):
        return ["i", o]
    if isinstance(o, float):
        return ["f", o.hex()]
    if isinstance(o, str):
        return ["s", o]
    if isinstance(o, numpy.generic):
        return ["np", str(o.dtype), o.tobytes().hex()]
    if isinstance(o, numpy.ndarray):
        return ["nd", str(o.dtype), list(o.shape), o.tobytes().hex()]
    if isinstance(o, pandas.Series):
        return ["series", [ser(x, depth + 1) for x in o.tolist()]]
    if isinstance(o, pathlib.PurePath):
        return ["path", str(o)]
    if attr.has(type(o)):
        return ["attrs", type(o).__module__ + "." + type(o).__qualname__,
                [[f.name, ser(getattr(o, f.name), depth + 1)] for f in attr.fields(type(o))],
                # instance attributes that are not attrs fields (hidden state smuggled onto the object)
                sorted([k, ser(v, depth + 1)] for k, v in getattr(o, "__dict__", {}).items()
                       if k not in {f.name for f in attr.fields(type(o))})]
    if isinstance(o, list):
        return ["list", [ser(x, depth + 1) for x in o]]
    if isinstance(o, tuple):
        return ["tuple", [ser(x, depth + 1) for x in o]]
    if isinstance(o, dict):
        return ["dict", sorted([[repr(k), ser(v, depth + 1)] for k, v in o.items()])]
    if isinstance(o, (set, frozenset)):
        return ["set", sorted(json.dumps(ser(x, depth + 1), sort_keys=True) for x in o)]
    return ["repr", type(o).__name__, repr(o)]


def singletons():
    out = {}
    for holder in (U.Mixtures, U.Components):
        for k, v in sorted(vars(holder).items()):
            if not k.startswith("_") and attr.has(type(v)):
                out[holder.__name__ + "." + k] = ser(v)
    return out


LIB_CLASSES = None


def class_defaults():
    global LIB_CLASSES
    import pyvaporation as pv
    if LIB_CLASSES is None:
        LIB_CLASSES = [getattr(pv, n) for n in pv.__all__ if isinstance(getattr(pv, n), type) and attr.has(getattr(pv, n))]
    out = {}
    for cls in LIB_CLASSES:
        out[cls.__name__] = [[f.name, ser(f.default) if not isinstance(f.default, attr.Factory) and f.default is not attr.NOTHING else "nodefault"]
                             for f in attr.fields(cls)]
    return out


def module_state():
    """module-level mutable state of the library (anything that is not a module/class/function)."""
    import sys
    import types
    out = {}
    for name, mod in sorted(sys.modules.items()):
        if not name.startswith("pyvaporation"):
            continue
        for k, v in sorted(vars(mod).items()):
            if k.startswith("__") or isinstance(v, (types.ModuleType, type, types.FunctionType, types.BuiltinFunctionType)):
                continue
            if callable(v):
                continue
            try:
                out[name + "." + k] = ser(v)
            except Exception as e:  # noqa: BLE001
                out[name + "." + k] = ["unserialisable", repr(e)]
    return out


def interpreter_modes():
    """process-wide switches that decide whether a later numeric call returns or raises: numpy's floating-point error
    handling and the attrs validator switch.  A modelling call that leaves them changed makes later calls (the caller's own
    and the library's: 0/0 at a pure feed, out-of-range fractions) behave differently from a fresh interpreter."""
    import attr
    import numpy
    return {"numpy_err": dict(numpy.geterr()), "attrs_validators_disabled": bool(attr.validators.get_disabled())}


def canon(world, with_globals=True):
    """digest of what the purity properties speak about: the shared argument objects (every field, plus any attribute
    smuggled onto them) and the library's built-in Mixtures / Components singletons."""
    body = {"world": ser(world)}
    if with_globals:
        body["singletons"] = singletons()
        body["modes"] = interpreter_modes()
    return hashlib.sha256(json.dumps(body, sort_keys=True).encode()).hexdigest()


def hidden_state():
    """digest of library state that is NOT one of the caller's objects: attrs class defaults and module-level data.
    A change here is hidden state, but not by itself a violation (a fully keyed memo is legitimate): it is recorded,
    and it is the near-collision operations in the menus that decide whether such state ever changes a result."""
    body = {"class_defaults": class_defaults(), "module_state": module_state()}
    return hashlib.sha256(json.dumps(body, sort_keys=True).encode()).hexdigest()


def diff(a, b, path="world"):
    """first difference between two ser() trees (for the violation message)."""
    if type(a) != type(b):
        return "%s: %r vs %r" % (path, a, b)
    if isinstance(a, list):
        if len(a) != len(b):
            return "%s: length %d vs %d" % (path, len(a), len(b))
        for i, (x, y) in enumerate(zip(a, b)):
            d = diff(x, y, "%s[%d]" % (path, i))
            if d:
                return d
        return None
    if isinstance(a, dict):
        for k in sorted(set(a) | set(b)):
            if k not in a or k not in b:
                return "%s.%s: present on one side only" % (path, k)
            d = diff(a[k], b[k], "%s.%s" % (path, k))
            if d:
                return d
        return None
    return None if a == b else "%s: %r vs %r" % (path, a, b)


def result_digest(o):
    """bit-exact digest of a returned object (for repeatability comparisons); wall-clock strings excluded."""
    s = ser(o)
    s = strip_comments(s)
    return hashlib.sha256(json.dumps(s, sort_keys=True).encode()).hexdigest()[:20]


def strip_comments(s):
    if isinstance(s, list):
        if len(s) == 4 and s[0] == "attrs":
            fields = [[n, (["s", "<comment>"] if n in ("comments", "comment") else strip_comments(v))] for n, v in s[2]]
            return [s[0], s[1], fields, strip_comments(s[3])]
        return [strip_comments(x) for x in s]
    return s


def reachable_ids(*roots):
    """ids of every object reachable from the given roots (attrs fields, instance dicts, containers)."""
    seen = set()
    stack = list(roots)
    while stack:
        o = stack.pop()
        if id(o) in seen or o is None or isinstance(o, (bool, int, float, str, numpy.generic)):
            continue
        seen.add(id(o))
        if isinstance(o, (list, tuple, set, frozenset)):
            stack.extend(o)
        elif isinstance(o, dict):
            stack.extend(o.values())
        elif attr.has(type(o)):
            stack.extend(getattr(o, f.name, None) for f in attr.fields(type(o)))
            stack.extend(getattr(o, "__dict__", {}).values())
    return seen


def caller_edit(res, keep):
    """the caller, who owns what a call returned, edits it IN PLACE: every list / numpy array reachable from the result that
    is not one of the shared argument objects or library singletons (ids in `keep`) gets its numeric items changed.
    Returns the number of containers edited."""
    edited = 0
    seen = set()
    stack = [res]
    while stack:
        o = stack.pop()
        if o is None or id(o) in seen or id(o) in keep or isinstance(o, (bool, int, float, str, numpy.generic)):
            continue
        seen.add(id(o))
        if isinstance(o, numpy.ndarray):
            if o.dtype.kind == "f" and o.flags.writeable:
                o *= 1.5
                o += 0.25
                edited += 1
        elif isinstance(o, list):
            changed = False
            for i, x in enumerate(o):
                if isinstance(x, float):
                    o[i] = x * 1.5 + 0.25
                    changed = True
                elif isinstance(x, tuple) and x and all(isinstance(y, float) for y in x):
                    o[i] = tuple(y * 1.5 + 0.25 for y in x)
                    changed = True
                else:
                    stack.append(x)
            edited += changed
        elif isinstance(o, tuple):
            stack.extend(o)
        elif isinstance(o, dict):
            stack.extend(o.values())
        elif attr.has(type(o)):
            stack.extend(getattr(o, f.name, None) for f in attr.fields(type(o)))
    return edited
