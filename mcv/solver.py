"""E4 seam - harness-side subclass of Pervaporation that observes the fixed-point iteration of
calculate_partial_fluxes at the point the properties name
(get_partial_fluxes_from_permeate_composition): exact float orbit of the permeate composition,
call count, last permeate composition; lasso detection with memoised evaluation once the orbit is
proved periodic.
"""
import inspect

from . import core, universe as U

_PARENT = U.Pervaporation.get_partial_fluxes_from_permeate_composition
_SIG = inspect.signature(_PARENT)


class Lasso(Exception):
    """periodic orbit and still iterating after the evaluation budget: non-termination proved up to B."""


class Budget(Exception):
    """evaluation budget exhausted on an orbit that was not proved periodic: undecided."""


import pyvaporation.pervaporation.pervaporation as _pvmod

_REAL_GPP = _pvmod.get_partial_pressures
_GPP = {"n": 0, "limit": None}


def _counting_gpp(*a, **k):
    """fallback observer: counts module-level get_partial_pressures calls made from the solver module, in
    case a refactoring inlines the observed method (then the method-level orbit is blind)."""
    _GPP["n"] += 1
    if _GPP["limit"] is not None and _GPP["n"] > _GPP["limit"]:
        raise Budget("%d partial-pressure evaluations inside one flux calculation" % _GPP["n"])
    return _REAL_GPP(*a, **k)


_pvmod.get_partial_pressures = _counting_gpp


class ObservedPV(U.Pervaporation):
    def calculate_partial_fluxes(self, *args, **kwargs):
        if hasattr(self, "_calls"):
            self.observe(budget=self._budget, detect=self._detect, keep_orbit=self._orbit is not None)
            _GPP["n"] = 0
            _GPP["limit"] = 3 * self._budget + 10
        try:
            return U.Pervaporation.calculate_partial_fluxes(self, *args, **kwargs)
        finally:
            _GPP["limit"] = None

    def observe(self, budget=10 ** 6, detect=True, keep_orbit=False):
        self._calls = 0
        self._budget = budget
        self._detect = detect
        self._seen = {}
        self._period = None
        self._entry = None
        self._memo = None
        self._last_y = None
        self._prev_y = None
        self._orbit = [] if keep_orbit else None
        return self

    def get_partial_fluxes_from_permeate_composition(self, *args, **kwargs):
        if not hasattr(self, "_calls"):
            return _PARENT(self, *args, **kwargs)
        ba = _SIG.bind(self, *args, **kwargs)
        y = ba.arguments.get("permeate_composition")
        yp = float(y.p) if y is not None else None
        self._calls += 1
        self._prev_y = self._last_y
        self._last_y = y
        if self._orbit is not None:
            self._orbit.append(yp)
        if self._calls > self._budget:
            if self._period is not None:
                raise Lasso("period %d entered at call %d, still iterating after %d evaluations" % (
                    self._period, self._entry, self._budget))
            raise Budget("%d evaluations without convergence or proved periodicity" % self._budget)
        if self._memo is not None:
            hit = self._memo.get(yp)
            if hit is not None:
                return hit
            out = _PARENT(self, *args, **kwargs)
            self._memo[yp] = out
            return out
        if self._detect and yp is not None:
            first = self._seen.get(yp)
            if first is not None and self._calls - first >= 2:
                # same float state revisited at distance >= 2: the orbit is periodic from here on
                # (all other arguments are constant within one flux calculation)
                self._period = self._calls - first
                self._entry = first
                self._memo = {}
            else:
                self._seen[yp] = self._calls
                if len(self._seen) > 200000:
                    self._seen.clear()
        out = _PARENT(self, *args, **kwargs)
        if self._memo is not None:
            self._memo[yp] = out
        return out


def make_pv(mixture, p1=1e-2, p2=1e-4, t_ref=333.15, ea=(25000.0, 60000.0)):
    membrane = U.make_membrane(mixture, p1, p2, t_ref=t_ref, ea1=ea[0], ea2=ea[1])
    return ObservedPV(membrane=membrane, mixture=mixture)


def solve(pv, t, x_comp, perms, mode, precision, model, budget=10 ** 6, keep_orbit=False):
    """one observed flux calculation.  Returns dict(status, fluxes|exc, calls, y_star, y_prev, period)."""
    pv.observe(budget=budget, keep_orbit=keep_orbit)
    kw = U.permeate_kwargs(mode, t)
    try:
        j = pv.calculate_partial_fluxes(
            feed_temperature=t, composition=x_comp, precision=precision,
            first_component_permeance=U.Permeance(value=perms[0]), second_component_permeance=U.Permeance(value=perms[1]),
            calculation_type=model, **kw)
        out = {"status": "ok", "fluxes": (float(j[0]), float(j[1]))}
    except Lasso as e:
        out = {"status": "lasso", "exc": e}
    except Budget as e:
        out = {"status": "budget", "exc": e}
    except RecursionError:
        raise
    except Exception as e:  # noqa: BLE001
        out = {"status": "raise", "exc": e}
    out.update(calls=pv._calls, y_star=pv._last_y, y_prev=pv._prev_y, period=pv._period, entry=pv._entry,
               orbit=pv._orbit)
    return out
