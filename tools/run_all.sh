#!/bin/bash
# tools/run_all.sh [tier]  - runs every check once, prints id, exit code, seconds
cd "$(dirname "$0")/.."
tier="${1:-quick}"
for i in $(seq -w 1 20); do
  id="C$i"; t0=$(date +%s.%N)
  out=$(./check $id --tier $tier 2>&1); rc=$?
  t1=$(date +%s.%N)
  printf "%s rc=%d %.1fs %s\n" $id $rc $(echo "$t1 - $t0" | bc) "$(echo "$out" | grep -c '^KNOWN-FINDING') known-finding lines"
  if [ $rc != 0 ]; then echo "$out" | tail -5; fi
done
