#!/bin/bash
# tools/benign_run.sh [ID...]  - applies every benign/*.diff (behaviour-preserving refactorings, repaired known defects) to a scratch
# (BENIGN="benign/a.diff benign/b.diff" restricts the patches) copy of /repo and runs the named checks (default: all 20): every one must exit 0.
cd "$(dirname "$0")/.."
ids="$@"; [ -z "$ids" ] && ids=$(for i in $(seq -w 1 20); do echo C$i; done)
for b in ${BENIGN:-benign/*.diff}; do
  W=/dev/shm/benign_$$; rm -rf $W; mkdir $W; rsync -a --exclude .git /repo/ $W/
  (cd $W && patch -p1 -s < "$OLDPWD/$b") || { echo "PATCH-FAILED $b"; rm -rf $W; continue; }
  bad=0
  for id in $ids; do
    out=$(VERIF_REPO=$W VERIF_EVIDENCE_DIR=$W/.ev ./check $id 2>&1); rc=$?
    if [ $rc != 0 ]; then bad=1; echo "FALSE-ALARM $b $id rc=$rc"; echo "$out" | grep "violation key" | head -3; fi
  done
  [ $bad = 0 ] && echo "silent: $b"
  rm -rf $W
done
