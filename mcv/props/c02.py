"""C02 - returned fluxes obey the solution-diffusion law at a self-consistent permeate.

E1 + seam: every element of a finite lattice of flux calculations is run once through an observing
subclass; the permeate composition y* of the last driving-force evaluation is read off the seam.
(a) J_i = P_i (pf_i - pp_i(y*)); (b) vacuum / p = 0: J_i = P_i pf_i; (c) pressure mode:
J1/P1 + J2/P2 = pf1 + pf2 - p; (d) |y(J) - y*| < precision when the iteration is locally
contractive; (e) permeances x 2^j => fluxes x 2^j, y unchanged (bit-identical).
"""
import math

from .. import core, solver, universe as U

ID = "C02"
BUDGET = 20000  # longer orbits are C10's business


def G(pv, y, case, comp, kw):
    """composition of the fluxes computed at permeate composition y (the iteration map)."""
    j = U.Pervaporation.get_partial_fluxes_from_permeate_composition(
        pv, first_component_permeance=U.Permeance(value=case["P"][0]), second_component_permeance=U.Permeance(value=case["P"][1]),
        permeate_composition=U.Composition(p=y, type="weight"), feed_composition=comp, feed_temperature=case["T"],
        calculation_type=case["model"], **kw)
    return float(j[0]) / (float(j[0]) + float(j[1]))


def solve_law_for_y(mix, case, kw, mode, pf, J, P):
    """the permeate MASS fraction y at which J_1 = P_1 (pf_1 - pp_1(y)) holds, and at which component 2 then holds too
    (1e-9); None if there is no such y (then the pair is left to oracle (a)).  Pressure mode: closed form in either
    basis; temperature mode: secant iteration from the composition of the fluxes."""
    m1, m2 = mix.first_component.molecular_weight, mix.second_component.molecular_weight
    yJ = J[0] / (J[0] + J[1])

    def resid(y, basis):
        if mode[0] == "p":
            f = y if basis == "weight" else U.exact_to_molar(y, m1, m2)
            pp = (mode[1] * f, mode[1] * (1 - f))
        else:
            q = U.pyvaporation.get_partial_pressures(kw["permeate_temperature"], mix, U.Composition(p=y, type="weight"), case["model"])
            pp = (float(q[0]), float(q[1]))
        return [J[i] - P[i] * (pf[i] - pp[i]) for i in (0, 1)]

    best = None
    for basis in (("weight", "molar") if mode[0] == "p" else ("weight",)):
        y0, y1 = yJ, min(max(yJ + 1e-4, 1e-9), 1 - 1e-9)
        scale = [P[i] * (abs(pf[i]) + 1e-300) for i in (0, 1)]
        try:
            r = resid(yJ, basis)
            if abs(r[0]) <= 1e-10 * scale[0] and abs(r[1]) <= 1e-10 * scale[1]:
                return yJ  # the fluxes' own composition satisfies the law (the law may be insensitive to y: no unique root)
        except Exception:  # noqa: BLE001
            pass
        try:
            f0, f1 = resid(y0, basis)[0], resid(y1, basis)[0]
            for it in range(60):
                if f1 == f0:
                    if it == 0:
                        y1 = yJ  # the law does not depend on y here (e.g. zero permeate pressure): every y satisfies it equally
                    break  # later: converged (two iterates with identical residual)
                y2 = y1 - f1 * (y1 - y0) / (f1 - f0)
                if not (0.0 <= y2 <= 1.0):
                    break
                y0, f0, y1, f1 = y1, f1, y2, resid(y2, basis)[0]
                if abs(y1 - y0) < 1e-15:
                    break
            r = resid(y1, basis)
        except Exception:  # noqa: BLE001
            continue
        scale = [P[i] * (abs(pf[i]) + 1e-300) for i in (0, 1)]
        if abs(r[0]) <= 1e-9 * scale[0] and abs(r[1]) <= 1e-7 * scale[1]:
            if best is None or abs(y1 - yJ) < abs(best - yJ):
                best = y1
    return best


def judge(case):
    mix = U.get_mixture(case["mixture"])
    pv = solver.make_pv(mix)
    mode = tuple(case["mode"]) if case["mode"] != "vac" else "vac"
    comp = U.composition(case["x"], case.get("basis", "weight"), mix)
    out = solver.solve(pv, case["T"], comp, case["P"], mode, case["precision"], case["model"], budget=BUDGET)
    if out["status"] != "ok":
        return core.result("not-judged:" + out["status"], nontrivial=False)
    J = out["fluxes"]
    P = case["P"]
    kw = U.permeate_kwargs(mode, case["T"])
    v = []
    if not all(math.isfinite(j) for j in J):
        return core.result("returned-nonfinite", nontrivial=False)
    pf = U.pyvaporation.get_partial_pressures(case["T"], mix, comp, case["model"])
    pf = (float(pf[0]), float(pf[1]))
    ystar = out["y_star"]
    if ystar is None:
        # no driving-force evaluation went through the observed method (an implementation may inline it or take a shortcut):
        # fall back to the seam-free form - solve the law for y from the returned fluxes
        if mode == "vac" or (mode[0] == "p" and mode[1] == 0):
            ok_v = all(core.close(J[i], P[i] * pf[i], core.ULP) for i in (0, 1))
            vv = [] if ok_v else [core.viol("C02/vacuum_law", "fluxes %r differ from permeance x feed partial pressure %r" % (J, (P[0] * pf[0], P[1] * pf[1])))]
            return core.result("judged-unobserved", digest=core.digest_of([core.fhex(J[0]), core.fhex(J[1])]), viol=vv)
        y_law = solve_law_for_y(mix, case, kw, mode, pf, J, P)
        yJ0 = J[0] / (J[0] + J[1]) if (J[0] + J[1]) != 0 else math.nan
        if y_law is None or not abs(y_law - yJ0) < max(case["precision"], 1e-9) * 1.5:
            return core.result("judged-unobserved", viol=[core.viol("C02/driving_force/unobserved", "returned fluxes %r (no driving-force evaluation was observable) do not satisfy permeance x (feed - permeate "
                                                                  "partial pressure) at any permeate composition within the precision of their own composition %r (closest: %r)" % (J, yJ0, y_law))])
        return core.result("judged-unobserved", digest=core.digest_of([core.fhex(J[0]), core.fhex(J[1])]))
    # the composition of fluxes is a MASS fraction; whatever basis the implementation labels its permeate estimate
    # with is honoured (exact conversion), so a mass fraction merely *labelled* molar shows up as a mismatch
    ys = U.mass_fraction(ystar, mix)
    ystar = U.Composition(p=ys, type="weight")
    # (a) driving-force law at y*
    if mode == "vac":
        cands = [(0.0, 0.0)]
    elif mode[0] == "T":
        pp = U.pyvaporation.get_partial_pressures(kw["permeate_temperature"], mix, ystar, case["model"])
        cands = [(float(pp[0]), float(pp[1]))]
    else:
        p = kw["permeate_pressure"]
        ym = U.exact_to_molar(ys, mix.first_component.molecular_weight, mix.second_component.molecular_weight)
        cands = [(p * ys, p * (1 - ys)), (p * ym, p * (1 - ym))]  # the statement does not fix the basis (see K2 of C09)
    ok_a = False
    for pp in cands:
        if all(abs(J[i] - P[i] * (pf[i] - pp[i])) <= core.ULP * P[i] * (abs(pf[i]) + abs(pp[i])) + 1e-300 for i in (0, 1)):
            ok_a = True
    if not ok_a:
        v.append(core.viol("C02/driving_force/" + (mode if mode == "vac" else mode[0]),
                           "returned fluxes %r are not permeance x (feed - permeate partial pressure) at the last evaluated permeate composition %r" % (J, ys),
                           pf=pf, candidates=cands, P=P))
    # (b) no permeate condition / zero pressure
    if mode == "vac" or (mode[0] == "p" and mode[1] == 0):
        if not all(core.close(J[i], P[i] * pf[i], core.ULP) for i in (0, 1)):
            v.append(core.viol("C02/vacuum_law", "fluxes %r differ from permeance x feed partial pressure %r" % (J, (P[0] * pf[0], P[1] * pf[1]))))
    # (c) pressure identity
    if mode != "vac" and mode[0] == "p":
        lhs = J[0] / P[0] + J[1] / P[1]
        rhs = pf[0] + pf[1] - mode[1]
        if not abs(lhs - rhs) <= core.ULP * (abs(pf[0]) + abs(pf[1]) + abs(mode[1])) * 4:
            v.append(core.viol("C02/pressure_identity", "J1/P1 + J2/P2 = %r but p_feed1 + p_feed2 - p = %r" % (lhs, rhs)))
    # (d) self-consistency where the map is locally contractive
    yJ = J[0] / (J[0] + J[1]) if (J[0] + J[1]) != 0 else None  # all-zero fluxes have no composition: (a)-(c) decide
    contract = None
    judged_d = 0
    if mode != "vac":
        try:
            h1, h2 = 1e-6, max(case["precision"], 1e-6)
            ls = []
            for h in (h1, h2):
                lo, hi = max(ys - h, 0.0), min(ys + h, 1.0)
                g0 = G(pv, ys, case, comp, kw)
                ls.append(abs(G(pv, hi, case, comp, kw) - g0) / (hi - ys) if hi > ys else 0.0)
                ls.append(abs(g0 - G(pv, lo, case, comp, kw)) / (ys - lo) if ys > lo else 0.0)
            contract = max(ls)
        except Exception:  # noqa: BLE001
            contract = None
    else:
        contract = 0.0
    if contract is not None and contract < case.get("contract_max", 0.9) and yJ is not None:
        judged_d = 1
        if not abs(yJ - ys) < case["precision"]:
            v.append(core.viol("C02/self_consistency", "composition of the returned fluxes %r differs from the permeate composition used %r by more than the precision %r (local contraction %.3g)" % (
                yJ, ys, case["precision"], contract)))
    # (e) exact scaling by powers of two
    judged_e = 0
    if not v:
        for jexp in (-10, 1, 10):
            k = 2.0 ** jexp
            o2 = solver.solve(pv, case["T"], comp, (P[0] * k, P[1] * k), mode, case["precision"], case["model"], budget=BUDGET)
            if o2["status"] != "ok":
                v.append(core.viol("C02/scaling_outcome", "scaling both permeances by 2^%d changes the outcome from returned to %s" % (jexp, o2["status"])))
                break
            J2 = o2["fluxes"]
            rng = [J[0], J[1], J[0] * k, J[1] * k, J2[0], J2[1], float(o2["y_star"].p), float(out["y_star"].p)]
            if any((not math.isfinite(z)) or (z != 0.0 and abs(z) < 1e-290) or abs(z) > 1e290 for z in rng):
                continue  # overflow / gradual underflow: scaling by a power of two is no longer exact there
            judged_e += 1
            if not (core.bit_eq(J2[0], J[0] * k) and core.bit_eq(J2[1], J[1] * k) and core.bit_eq(float(o2["y_star"].p), float(out["y_star"].p))):
                v.append(core.viol("C02/scaling", "permeances x 2^%d: fluxes %r instead of %r, permeate composition %r instead of %r" % (
                    jexp, J2, (J[0] * k, J[1] * k), float(o2["y_star"].p), float(out["y_star"].p))))
                break
    # (f) the same question asked again on the SAME object after a coarser-precision question: the answer must still
    # satisfy the law at the requested precision (seam-free form of (a)+(d): solve the law for y from the returned
    # fluxes and compare with the composition of those fluxes)
    judged_f = 0
    if not v and mode != "vac" and contract is not None and contract < 0.9:
        pv2 = solver.make_pv(mix)
        coarse = max(case["precision"] * 1e3, 1e-2)
        o_c = solver.solve(pv2, case["T"], comp, P, mode, coarse, case["model"], budget=BUDGET)
        o_f = solver.solve(pv2, case["T"], comp, P, mode, case["precision"], case["model"], budget=BUDGET)
        if o_c["status"] == "ok" and o_f["status"] == "ok":
            Jf = o_f["fluxes"]
            y_law = solve_law_for_y(mix, case, kw, mode, pf, Jf, P)
            yJf = Jf[0] / (Jf[0] + Jf[1]) if (Jf[0] + Jf[1]) != 0 else None
            if y_law is not None and yJf is not None:
                judged_f = 1
                if not abs(y_law - yJf) < case["precision"] * (1 + 1e-6) + 1e-12:
                    v.append(core.viol("C02/self_consistency_after_coarser_call", "asked with precision %r right after the same state was asked with precision %r on the same object: "
                                       "the returned fluxes satisfy the law at permeate composition %r but their own composition is %r" % (case["precision"], coarse, y_law, yJf)))
        elif o_f["status"] != "ok" and o_c["status"] == "ok":
            pass  # raising/looping is C10's business
    # (g) the caller re-uses ONE feed Composition object and edits its value in place between two questions (also the caller's
    # Permeance objects): the second answer must be the fresh-object answer, bit for bit
    if not v:
        x_other = 0.37 if abs(case["x"] - 0.37) > 0.05 else 0.61
        feed = U.Composition(p=x_other, type=comp.type)
        p1, p2 = U.Permeance(value=P[0] * 1.7), U.Permeance(value=P[1] * 0.6)
        pv3 = solver.make_pv(mix)
        pv3.observe(budget=BUDGET)
        st1, _ = core.call(pv3.calculate_partial_fluxes, feed_temperature=case["T"], composition=feed, precision=case["precision"], first_component_permeance=p1,
                           second_component_permeance=p2, calculation_type=case["model"], **kw)
        core.call(U.pyvaporation.get_partial_pressures, case["T"], mix, feed, case["model"])
        feed.p = comp.p
        p1.value, p2.value = P[0], P[1]
        pv3.observe(budget=BUDGET)
        st2, j2 = core.call(pv3.calculate_partial_fluxes, feed_temperature=case["T"], composition=feed, precision=case["precision"], first_component_permeance=p1,
                            second_component_permeance=p2, calculation_type=case["model"], **kw)
        if st2 != "ok" or not (core.bit_eq(float(j2[0]), J[0]) and core.bit_eq(float(j2[1]), J[1])):
            v.append(core.viol("C02/stale_after_caller_edit", "the caller's feed Composition / Permeance objects were first used at x=%r, P=%r and then set in place to x=%r, P=%r: the flux calculation "
                               "returns %r, with fresh objects %r" % (x_other, (P[0] * 1.7, P[1] * 0.6), comp.p, tuple(P), j2 if st2 != "ok" else (float(j2[0]), float(j2[1])), J)))
    return core.result("judged", digest=core.digest_of([core.fhex(J[0]), core.fhex(J[1])]), viol=v,
                       judged_contractive=judged_d, judged_scalings=judged_e, judged_sequences=judged_f, max_contraction=contract,
                       max_calls=out["calls"], sample={"J": J, "y_star": ys, "calls": out["calls"], "L": contract})


def judge_slow(case):
    """pressure mode a little below the pressure at which the iteration is a neutral 2-cycle (harvested as in C10): the map
    contracts by 0.98-0.995 per evaluation, so a tight precision needs hundreds to thousands of evaluations - the stop
    criterion still has to be honoured (smooth map, measured contraction < 0.995: |G(y) - y| < precision at the returned y)."""
    from . import c10
    mix = U.get_mixture(case["mixture"])
    br = c10.marginal_pressure(mix, case["model"], case["T"], case["x"], case["P"])
    if br is None:
        return core.result("no-marginal-pressure", nontrivial=False)
    sub = {k: case[k] for k in ("mixture", "model", "T", "x", "P", "precision")}
    sub.update(mode=("p", br[0] * case["fraction"]), basis="weight", contract_max=0.995)
    r = judge(sub)
    r["outcome"] = "slow:" + r["outcome"]
    return r


def space(tier, seed):
    q = tier == "quick"
    alph = {
        "mixture": ["H2O_EtOH", "MeOH_DMC", "S2", "S5"] if q else list(U.ALL_MIXTURES),
        "model": ["NRTL", "UNIQUAC"],
        "mode": ["vac", ("T", 120.0), ("T", -60.0), ("T", -20.0), ("p", 0.0), ("p", 0.004), ("p", 0.5), ("p", 5.0)] +
                ([] if q else [("T", -5.0), ("T", 0.0), ("p", 100.0)]),
        "P": [(1e-2, 1e-4), (1e-3, 1e-3), (1e-6, 1.0), (1.0, 1e-6)] if q else
             [(a, b) for a in (1e-6, 1e-4, 1e-2, 1.0) for b in (1e-6, 1e-4, 1e-2, 1.0)],
        "x": core.lat([0.05, 0.3, 0.5, 0.9], seed) if q else core.lat([0.01, 0.05, 0.1, 0.3, 0.5, 0.7, 0.9, 0.95, 0.99], seed),
        "basis": ["weight", "molar"] if q else ["weight"],
        "T": core.lat([293.15, 333.15, 373.15], seed) if q else core.lat([273.15, 293.15, 313.15, 333.15, 353.15, 373.15, 400.0], seed),
        "precision": [5e-5, 1e-8] if q else [1e-3, 5e-5, 1e-8],
    }
    return core.Space("flux_calculations", alph, lambda c: U.has_model(U.get_mixture(c["mixture"]), c["model"]))


def main(tier, seed):
    rep = core.Report(
        ID, "exploration", tier, seed,
        rule="every element of the finite product lattice is one flux calculation through the observing subclass; "
             "non-trivial = the call returned finite fluxes and oracles (a)-(e) were evaluated; distinct = distinct bit "
             "pattern of the returned flux pair",
        assumptions=["get_partial_pressures taken as given (judged by C04)",
                     "in pressure mode the permeate fractions may be mass or mole fractions (the statement does not fix it)",
                     "(d) is judged only where the measured local contraction factor is < 0.9 (< 0.995 in the slow_contraction space, whose map is linear fractional)",
                     "raising / non-converging cases are C10's business and only counted"],
        technique="bounded exhaustive enumeration of a finite input lattice with a harness-side seam on the fixed-point iteration")
    core.run_space(rep, space(tier, seed), judge)
    q = tier == "quick"
    slow = core.Space("slow_contraction", {
        "mixture": ["H2O_EtOH", "S2"] if q else ["H2O_EtOH", "MeOH_DMC", "MeOH_Toluene", "S2"], "model": ["NRTL", "UNIQUAC"],
        "T": core.lat([313.15, 333.15], seed)[:1] if q else core.lat([313.15, 333.15], seed), "x": core.lat([0.2, 0.5], seed) if q else core.lat([0.2, 0.5, 0.8], seed),
        "P": [(1e-2, 1e-3), (1e-4, 1e-2)], "precision": [1e-8, 5e-5], "fraction": [0.9, 0.98, 0.99] if q else [0.9, 0.97, 0.98, 0.99, 0.993]},
        lambda c: U.has_model(U.get_mixture(c["mixture"]), c["model"]))
    core.run_space(rep, slow, judge_slow)
    return rep.finish()


def replay(body):
    fn = judge_slow if "fraction" in body["case"] else judge
    r1 = fn(body["case"])
    r2 = fn(body["case"])
    assert core.jsonable(r1["viol"]) == core.jsonable(r2["viol"]), "replay is not deterministic"
    for v in r1["viol"]:
        print("violation key=%s: %s" % (v["key"], v["msg"]))
    print("replayed: outcome=%s violations=%d" % (r1["outcome"], len(r1["viol"])))
    return 1 if r1["viol"] else 0
