"""Shared machinery: finite product spaces, parallel exhaustive enumeration, tolerance classes,
known-finding handling, replay files and evidence files.

Nothing in here samples.  A Space is a finite mixed-radix product of named alphabets (optionally
filtered by a constraint); `run_space` evaluates *every* element of it, sharded over worker
processes by contiguous index chunks, and merges the per-case results.
"""
import collections
import hashlib
import itertools
import json
import math
import multiprocessing as mp
import os
import subprocess
import sys
import time
import traceback

VERIF = os.path.dirname(os.path.dirname(os.path.abspath(__file__)))
WORKERS = int(os.environ.get("VERIF_WORKERS", "0")) or min(16, os.cpu_count() or 1)

# ---------------------------------------------------------------------------------------------
# tolerance classes (DESIGN.md section 3)
# ---------------------------------------------------------------------------------------------
ULP = 1e-12  # same real formula, different evaluation order
FD = 1e-6  # identities checked through finite differences


def fhex(x):
    try:
        return float(x).hex()
    except (TypeError, ValueError):
        return repr(x)


def bit_eq(a, b):
    """BIT class: identical IEEE-754 doubles (NaN equals NaN)."""
    a = float(a)
    b = float(b)
    if math.isnan(a) or math.isnan(b):
        return math.isnan(a) and math.isnan(b)
    return a == b


def close(a, b, rel=ULP, abs_=0.0):
    a = float(a)
    b = float(b)
    if math.isnan(a) or math.isnan(b):
        return False
    if math.isinf(a) or math.isinf(b):
        return a == b
    return abs(a - b) <= rel * max(abs(a), abs(b)) + abs_


def relerr(a, b, floor=1e-300):
    a = float(a)
    b = float(b)
    if a == b:
        return 0.0
    return abs(a - b) / max(abs(a), abs(b), floor)


def finite(x):
    try:
        return math.isfinite(float(x))
    except (TypeError, ValueError):
        return False


# ---------------------------------------------------------------------------------------------
# lattice helpers.  VERIF_SEED never samples: it selects residue class `seed mod r` of a master
# grid that is r times finer than the canonical lattice in every continuous dimension.
# ---------------------------------------------------------------------------------------------
R_MASTER = 5


def lat(values, seed, r=R_MASTER):
    """Shift every point of a sorted continuous alphabet by (seed mod r)/r of the gap to its
    right-hand neighbour (the last point moves left by the same fraction of half its left gap),
    so seeds 0..r-1 tile a master grid r times denser; seed 0 is the canonical lattice."""
    s = seed % r
    if s == 0 or len(values) < 2:
        out = list(values)
    else:
        out = []
        for i, v in enumerate(values):
            if i + 1 < len(values):
                out.append(v + (values[i + 1] - v) * s / r)
            else:
                out.append(v - (v - values[i - 1]) * s / (2 * r))
    # no lattice point is a "round" decimal: a relative jitter of a few 1e-9 (physically nothing) makes slips that round,
    # truncate or compare with a decimal tolerance visible at the inputs themselves
    return [v * (1.0 + (2 * i + 1) * 1.13e-9) for i, v in enumerate(out)]


class Space:
    """Finite product of named alphabets, in canonical (simplest-first) mixed-radix order.
    The *last* alphabet varies fastest."""

    def __init__(self, name, alphabets, constraint=None):
        self.name = name
        self.names = list(alphabets.keys())
        self.alphabets = [list(alphabets[k]) for k in self.names]
        for k, a in zip(self.names, self.alphabets):
            if not a:
                raise ValueError("empty alphabet %s in space %s" % (k, name))
        self.constraint = constraint
        self.size = 1
        for a in self.alphabets:
            self.size *= len(a)

    def case(self, index):
        coords = {}
        for k, a in zip(reversed(self.names), reversed(self.alphabets)):
            index, j = divmod(index, len(a))
            coords[k] = a[j]
        coords = {k: coords[k] for k in self.names}
        if self.constraint is not None and not self.constraint(coords):
            return None
        return coords

    def describe(self):
        return {
            "space": self.name,
            "alphabet_sizes": {k: len(a) for k, a in zip(self.names, self.alphabets)},
            "product_size": self.size,
        }


class ListSpace:
    """An explicit finite list of cases (already enumerated by the caller)."""

    def __init__(self, name, cases, note=None):
        self.name = name
        self.cases = list(cases)
        self.size = len(self.cases)
        self.note = note

    def case(self, index):
        return self.cases[index]

    def describe(self):
        d = {"space": self.name, "product_size": self.size}
        if self.note:
            d["note"] = self.note
        return d


# ---------------------------------------------------------------------------------------------
# results of one case
# ---------------------------------------------------------------------------------------------
def result(outcome, nontrivial=True, digest=None, viol=None, states=0, transitions=0, traces=0, **extra):
    return {
        "outcome": outcome,
        "nontrivial": bool(nontrivial),
        "digest": digest,
        "viol": viol or [],
        "states": states,
        "transitions": transitions,
        "traces": traces,
        "extra": extra,
    }


def viol(key, msg, known=None, **detail):
    """A violation of the property on this case.  `key` is the violation-class key (call site /
    mode); `known` names the known-finding key whose documented *signature was confirmed on this
    very case* by the caller (never set it merely because the case looks similar)."""
    return {"key": key, "msg": msg, "known": known, "detail": jsonable(detail)}


def digest_of(*objs):
    h = hashlib.sha256()
    for o in objs:
        h.update(json.dumps(jsonable(o), sort_keys=True).encode())
    return h.hexdigest()[:16]


def jsonable(o):
    import numpy

    if o is None or isinstance(o, (bool, int, str)):
        return o
    if isinstance(o, float):
        if math.isnan(o) or math.isinf(o):
            return repr(o)
        return o
    if isinstance(o, numpy.generic):
        return jsonable(o.item())
    if isinstance(o, numpy.ndarray):
        return [jsonable(x) for x in o.tolist()]
    if isinstance(o, dict):
        return {str(k): jsonable(v) for k, v in o.items()}
    if isinstance(o, (list, tuple, set, frozenset)):
        return [jsonable(x) for x in o]
    if isinstance(o, BaseException):
        return "%s: %s" % (type(o).__name__, o)
    return repr(o)


def call(f, *a, **k):
    """Run a library call; returns ('ok', value) or ('raise', exception)."""
    try:
        return "ok", f(*a, **k)
    except RecursionError:
        raise
    except Exception as e:  # noqa: BLE001 - any exception is a legal observable outcome
        return "raise", e


# ---------------------------------------------------------------------------------------------
# parallel exhaustive enumeration
# ---------------------------------------------------------------------------------------------
_FN = None
_SPACE = None
MAX_VIOL_PER_CHUNK = 8


def _run_chunk(bounds):
    lo, hi = bounds
    agg = {
        "evaluations": 0,
        "filtered": 0,
        "outcomes": collections.Counter(),
        "nontrivial": 0,
        "digests": set(),
        "viol": [],
        "nviol": 0,
        "viol_keys": collections.Counter(),
        "states": 0,
        "transitions": 0,
        "traces": 0,
        "extra": collections.Counter(),
        "errors": [],
        "samples": [],
        "maxima": {},
    }
    for i in range(lo, hi):
        case = _SPACE.case(i)
        if case is None:
            agg["filtered"] += 1
            continue
        try:
            r = _FN(case)
        except Exception:  # harness bug, never a verdict
            agg["errors"].append({"index": i, "case": jsonable(case), "trace": traceback.format_exc()[-2000:]})
            continue
        agg["evaluations"] += 1
        agg["outcomes"][r["outcome"]] += 1
        if r["nontrivial"]:
            agg["nontrivial"] += 1
            agg["digests"].add(r["digest"] if r["digest"] is not None else "case:%d" % i)
        agg["states"] += r["states"]
        agg["transitions"] += r["transitions"]
        agg["traces"] += r["traces"]
        for k, v in r["extra"].items():
            if k.startswith("max_"):
                if v is not None and v > agg["maxima"].get(k, -math.inf):
                    agg["maxima"][k] = v
            elif isinstance(v, (int, float)):
                agg["extra"][k] += v
        for v in r["viol"]:
            agg["nviol"] += 1
            agg["viol_keys"][(v["key"], v["known"])] += 1
            if len(agg["viol"]) < MAX_VIOL_PER_CHUNK or v["known"] is None and sum(1 for w in agg["viol"] if w["known"] is None) < MAX_VIOL_PER_CHUNK:
                agg["viol"].append(dict(v, index=i, case=jsonable(case), space=_SPACE.name))
        if len(agg["samples"]) < 1 and r["nontrivial"]:
            agg["samples"].append({"space": _SPACE.name, "index": i, "case": jsonable(case), "outcome": r["outcome"],
                                   "observed": r["extra"].get("sample")})
    agg["extra"].pop("sample", None)
    return agg


def run_space(report, space, fn, workers=None, chunk=None, determinism_probe=3):
    """Evaluate fn on every case of the space; merge into the report."""
    global _FN, _SPACE
    only = os.environ.get("VERIF_ONLY_SPACE")
    if only and only != space.name:  # debugging aid; a restricted run is reported as capped
        report.cap("space %s skipped (VERIF_ONLY_SPACE=%s)" % (space.name, only))
        return {"evaluations": 0, "outcomes": {}, "extra": collections.Counter(), "maxima": {}, "viol": [], "nviol": 0}
    _FN, _SPACE = fn, space
    t0 = time.time()
    workers = workers or WORKERS
    n = space.size
    # determinism pre-check: the first few valid cases are evaluated twice in-process
    probed = 0
    for i in range(n):
        if probed >= determinism_probe:
            break
        c = space.case(i)
        if c is None:
            continue
        probed += 1
        try:
            a = fn(c)
            b = fn(c)
        except Exception:
            report.harness_error("space %s case %d raised in the harness:\n%s" % (space.name, i, traceback.format_exc()))
            break
        # what must repeat is what the verdict rests on: the library's numbers (digest) and the violations.  How MANY seam calls were
        # observed, or through which route a case was judged, may legitimately differ on the second evaluation (a fully keyed memo
        # inside the library answers the repeat without passing the observed seam)
        ja = json.dumps(jsonable({k: v for k, v in a.items() if k in ("digest", "viol")}), sort_keys=True)
        jb = json.dumps(jsonable({k: v for k, v in b.items() if k in ("digest", "viol")}), sort_keys=True)
        if ja != jb:
            report.harness_error("nondeterministic observation on space %s case %d" % (space.name, i))
    if chunk is None:
        chunk = max(1, min(2000, n // (workers * 8) or 1))
    bounds = [(lo, min(n, lo + chunk)) for lo in range(0, n, chunk)]
    if workers > 1 and len(bounds) > 1:
        ctx = mp.get_context("fork")
        with ctx.Pool(workers) as pool:
            parts = pool.map(_run_chunk, bounds, chunksize=1)
    else:
        parts = [_run_chunk(b) for b in bounds]
    merged = {
        "evaluations": 0, "filtered": 0, "outcomes": collections.Counter(), "nontrivial": 0, "digests": set(),
        "viol": [], "nviol": 0, "viol_keys": collections.Counter(), "states": 0, "transitions": 0, "traces": 0,
        "extra": collections.Counter(), "errors": [], "samples": [], "maxima": {},
    }
    for p in parts:
        for k in ("evaluations", "filtered", "nontrivial", "nviol", "states", "transitions", "traces"):
            merged[k] += p[k]
        merged["outcomes"].update(p["outcomes"])
        merged["viol_keys"].update(p["viol_keys"])
        merged["extra"].update(p["extra"])
        merged["digests"] |= p["digests"]
        merged["viol"].extend(p["viol"])
        merged["errors"].extend(p["errors"])
        if len(merged["samples"]) < 2:
            merged["samples"].extend(p["samples"][:1])
        for k, v in p["maxima"].items():
            if v > merged["maxima"].get(k, -math.inf):
                merged["maxima"][k] = v
    merged["wall_s"] = round(time.time() - t0, 2)
    print("  .. space %s done: %d evaluations in %.1fs" % (space.name, merged["evaluations"], merged["wall_s"]), file=sys.stderr, flush=True)
    report.add_space(space, merged)
    return merged


# ---------------------------------------------------------------------------------------------
# report: evidence, replay files, known findings, exit code
# ---------------------------------------------------------------------------------------------
def load_known():
    path = os.path.join(VERIF, "known_findings.json")
    with open(path) as f:
        return json.load(f)["findings"]


class Report:
    def __init__(self, pid, level, tier, seed, rule, assumptions=None, technique=None):
        self.pid = pid
        self.level = level
        self.tier = tier
        self.seed = seed
        self.rule = rule
        self.assumptions = list(assumptions or [])
        self.technique = technique
        self.t0 = time.time()
        self.spaces = []
        self.evaluations = 0
        self.nontrivial = 0
        self.digests = set()
        self.states = 0
        self.transitions = 0
        self.traces = 0
        self.violations = []  # unlisted ones
        self.known_hits = collections.Counter()
        self.nviol_unlisted = 0
        self.errors = []
        self.samples = []
        self.exhaustive = True
        self.caps = []
        self.notes = {}
        self.known = [k for k in load_known() if k["property"] == pid]

    # -- bookkeeping -------------------------------------------------------------------------
    def harness_error(self, msg):
        self.errors.append(msg)

    def cap(self, what):
        self.exhaustive = False
        self.caps.append(what)

    def note(self, key, value):
        self.notes[key] = jsonable(value)

    def _is_listed(self, key):
        return any(k["status"] == "known" and k["key"] == key for k in self.known)

    def add_violation(self, v):
        """v is a core.viol(...) dict extended with case/space/index."""
        if v.get("known") and self._is_listed(v["known"]):
            self.known_hits[v["known"]] += 1
        else:
            self.nviol_unlisted += 1
            if len(self.violations) < 40:
                self.violations.append(v)

    def add_space(self, space, m):
        d = space.describe()
        d.update({
            "evaluations": m["evaluations"], "filtered_by_constraint": m["filtered"],
            "nontrivial": m["nontrivial"], "distinct_observation_digests": len(m["digests"]),
            "outcomes": dict(m["outcomes"]), "counters": dict(m["extra"]), "maxima": m["maxima"],
            "states": m["states"], "transitions": m["transitions"], "traces": m["traces"], "wall_s": m["wall_s"],
        })
        self.spaces.append(d)
        self.evaluations += m["evaluations"]
        self.nontrivial += m["nontrivial"]
        self.digests |= {(space.name, x) for x in m["digests"]}
        self.states += m["states"]
        self.transitions += m["transitions"]
        self.traces += m["traces"]
        for e in m["errors"]:
            self.errors.append("space %s index %s: %s" % (space.name, e["index"], e["trace"]))
        self.samples.extend(m["samples"])
        # violations: listed-known ones are counted from the full key histogram, unlisted kept
        for (key, known), cnt in m["viol_keys"].items():
            if known and self._is_listed(known):
                self.known_hits[known] += cnt
            else:
                self.nviol_unlisted += cnt
        for v in sorted(m["viol"], key=lambda v: v["index"]):
            if not (v.get("known") and self._is_listed(v["known"])):
                if len(self.violations) < 40:
                    self.violations.append(v)

    def count(self, evaluations=0, nontrivial_digests=(), states=0, transitions=0, traces=0, sample=None):
        """for checks that explore outside run_space (history BFS)."""
        self.evaluations += evaluations
        for d in nontrivial_digests:
            self.nontrivial += 1
            self.digests.add(("direct", d))
        self.states += states
        self.transitions += transitions
        self.traces += traces
        if sample is not None and len(self.samples) < 6:
            self.samples.append(jsonable(sample))

    # -- output ------------------------------------------------------------------------------
    def finish(self):
        wall = round(time.time() - self.t0, 2)
        replay_paths = []
        rdir = os.path.join(os.environ.get("VERIF_REPLAY_DIR") or (
            os.path.join(os.environ["VERIF_EVIDENCE_DIR"], "replays") if os.environ.get("VERIF_EVIDENCE_DIR")
            else os.path.join(VERIF, "replays")), self.pid)
        for v in self.violations[:5]:
            os.makedirs(rdir, exist_ok=True)
            body = {"property": self.pid, "tier": self.tier, "seed": self.seed, "space": v.get("space"),
                    "index": v.get("index"), "case": v.get("case"), "key": v["key"], "msg": v["msg"],
                    "detail": v.get("detail")}
            h = hashlib.sha256(json.dumps(body, sort_keys=True).encode()).hexdigest()[:12]
            path = os.path.join(rdir, "%s.json" % h)
            with open(path, "w") as f:
                json.dump(body, f, indent=1, sort_keys=True)
            replay_paths.append(path)
        coverage = {
            "evaluations": self.evaluations,
            "distinct_nontrivial": len(self.digests),
            "nontrivial_cases": self.nontrivial,
            "rule": self.rule,
            "samples": self.samples[:6] if self.samples else [],
            "exhaustive": bool(self.exhaustive and not self.errors),
            "caps_hit": self.caps,
            "spaces": self.spaces,
            "workers": WORKERS,
            "known_findings_confirmed": dict(self.known_hits),
            "violation_keys": sorted({v["key"] for v in self.violations}),
        }
        if self.technique:
            coverage["technique"] = self.technique
        if self.level == "model_checking":
            coverage["states"] = self.states
            coverage["transitions"] = self.transitions
            coverage["traces_validated_against_impl"] = self.traces
        coverage.update(self.notes)
        ev = {
            "property_id": self.pid, "tier": self.tier, "seed": self.seed, "level": self.level,
            "coverage": coverage, "assumptions": self.assumptions, "wall_s": wall,
            "violations": self.nviol_unlisted,
        }
        edir = os.environ.get("VERIF_EVIDENCE_DIR") or os.path.join(VERIF, "evidence")
        os.makedirs(edir, exist_ok=True)
        epath = os.path.join(edir, "%s.json" % self.pid)
        with open(epath, "w") as f:
            json.dump(jsonable(ev), f, indent=1, sort_keys=True)
        ok_schema = validate_evidence(epath)
        print("[%s] tier=%s seed=%d evaluations=%d distinct_nontrivial=%d states=%d transitions=%d traces=%d "
              "exhaustive=%s wall=%.1fs" % (self.pid, self.tier, self.seed, self.evaluations, len(self.digests),
                                           self.states, self.transitions, self.traces, coverage["exhaustive"], wall))
        for s in self.spaces:
            print("  space %-28s size=%-8d eval=%-8d outcomes=%s" % (s["space"], s["product_size"], s["evaluations"],
                                                                    json.dumps(s["outcomes"], sort_keys=True)))
        for k in self.known:
            if k["status"] == "known" and self.known_hits.get(k["key"]):
                print("KNOWN-FINDING: property=%s %s [key=%s, confirmed on %d cases]" % (
                    self.pid, k["what"], k["key"], self.known_hits[k["key"]]))
        if self.errors:
            for e in self.errors[:5]:
                print("HARNESS-ERROR: %s" % e, file=sys.stderr)
            print("[%s] harness error(s): %d -- no verdict" % (self.pid, len(self.errors)))
            return 2
        if not ok_schema:
            print("[%s] evidence file failed schema validation" % self.pid)
            return 2
        if self.nviol_unlisted:
            for v, p in zip(self.violations, replay_paths):
                print("  violation key=%s: %s" % (v["key"], v["msg"]))
                print("VIOLATION property=%s replay=%s" % (self.pid, p))
            if self.nviol_unlisted > len(replay_paths):
                print("  (%d violating observations in total, keys: %s)" % (
                    self.nviol_unlisted, ", ".join(sorted({v["key"] for v in self.violations}))))
            return 1
        print("[%s] property held on everything explored" % self.pid)
        return 0


def validate_evidence(path):
    schema = "/root/.vp/EVIDENCE.schema.json"
    if not os.path.exists(schema):
        schema = os.path.join(VERIF, "schemas", "EVIDENCE.schema.json")
    code = (
        "import json,sys,jsonschema;"
        "jsonschema.validate(json.load(open(sys.argv[1])), json.load(open(sys.argv[2])))"
    )
    for py in ("python3-vt", "/opt/veriftools/pyvenv/bin/python"):
        try:
            r = subprocess.run([py, "-c", code, path, schema], capture_output=True, text=True, timeout=120)
        except (OSError, subprocess.TimeoutExpired):
            continue
        if r.returncode == 0:
            return True
        print(r.stderr[-1500:], file=sys.stderr)
        return False
    print("warning: no jsonschema interpreter found; evidence not validated", file=sys.stderr)
    return True
