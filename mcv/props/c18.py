"""C18 - reported process states are physically admissible, otherwise the call raises.

E2 reachability: every state of every returned trace of a configuration lattice that includes
coarse discretisations (one step removes 10%..1000% of the feed; temperature programmes that cross
0 K) must satisfy the admissibility invariant.  A raising call is always acceptable here (C01
judges spurious raises).
"""
import copy
import math

from .. import core, traces, universe as U
from . import spaces

ID = "C18"


def invariant(tr):
    """returns (step, text) of the first inadmissible reported state, or None."""
    for k in range(tr["n"]):
        if not (tr["m"][k] > 0 and math.isfinite(tr["m"][k])):
            return k, "feed mass %r" % tr["m"][k]
        if not (0.0 <= tr["x"][k] <= 1.0):
            return k, "feed mass fraction %r" % tr["x"][k]
        if not (0.0 <= tr["y"][k] <= 1.0):
            return k, "permeate mass fraction %r" % tr["y"][k]
        if not (0.0 < tr["T"][k] < math.inf):
            return k, "feed temperature %r K" % tr["T"][k]
        if not all(math.isfinite(j) for j in tr["J"][k]):
            return k, "fluxes %r" % (tr["J"][k],)
        if not math.isfinite(tr["Q"][k]):
            return k, "evaporation heat %r" % tr["Q"][k]
        if tr["Qc"][k] is not None and not math.isfinite(tr["Qc"][k]):
            return k, "condensation heat %r" % tr["Qc"][k]
    return None


def judge(case):
    case = dict(case)
    frac = case.pop("frac", None)
    if frac is not None:
        # choose the area so that step 0 removes `frac` of the feed: observe the step-0 total flux on a run
        # with a vanishing area (fluxes at step 0 do not depend on the area)
        probe = traces.Setup(dict(case, steps=1, area=1e-12, prog="none" if case["prog"] == "poly_cross0" else case["prog"]))
        st, pm = probe.run()
        if st != "ok":
            return core.result("probe-raised", nontrivial=False)
        j = pm.partial_fluxes[0]
        tot = float(j[0]) + float(j[1])
        if not (tot > 0 and math.isfinite(tot)):
            return core.result("probe-no-flux", nontrivial=False)
        case["area"] = frac * case["amount"] / (tot * case["dt"])
    setup = traces.Setup(case)
    st, pm = setup.run()
    if st == "raise":
        return core.result("raised:" + type(pm).__name__, nontrivial=True, digest=None, traces=1)
    try:
        tr = traces.extract(pm)
    except Exception as e:  # noqa: BLE001
        return core.result("malformed", viol=[core.viol("C18/malformed_result/" + setup.kind, "returned model cannot be read: %r" % (e,))])
    bad = invariant(tr)
    v = []
    if bad is None and tr["n"] >= 1:
        # "when the requested step size would drive the model outside this region the call raises": the last reported
        # step's own balance (reference stepper) must leave a positive feed mass, by a clear margin
        m_next, x_next, t_next = traces.lookahead(setup, tr)
        if m_next <= -1e-9 * abs(tr["m"][-1]):
            v.append(core.viol("C18/exhausting_step_returned/" + setup.kind, "the last of the %d requested steps removes more than the remaining feed (%r kg left, balance gives %r kg) "
                               "but the call returns instead of raising" % (tr["n"], tr["m"][-1], m_next), m=tr["m"], J=tr["J"][-1]))
    if bad is None and not v:
        # the same for each component, on every reported transition: a step that draws more of a component than the feed
        # holds cannot lead to an admissible state, so the call should have raised
        for k in range(tr["n"]):
            m_k, x_k = tr["m"][k], tr["x"][k]
            d1 = tr["J"][k][0] * setup.area * setup.dt
            d2 = tr["J"][k][1] * setup.area * setup.dt
            if x_k * m_k - d1 < -1e-9 * m_k or (1 - x_k) * m_k - d2 < -1e-9 * m_k:
                v.append(core.viol("C18/component_overdrawn_returned/" + setup.kind, "step %d removes %r kg of component 1 and %r kg of component 2 from a feed holding %r and %r kg, "
                                   "yet the call returns" % (k, d1, d2, x_k * m_k, (1 - x_k) * m_k), step=k))
                break
    if bad is not None:
        v.append(core.viol("C18/inadmissible_state/" + setup.kind, "reported state %d has %s" % bad, step=bad[0],
                           m=tr["m"], x=tr["x"], T=tr["T"], area=case["area"]))
    return core.result("returned", digest=traces.trace_digest(tr), viol=v, states=tr["n"], transitions=max(tr["n"] - 1, 0),
                       traces=1, sample={"m": tr["m"][:4], "T": tr["T"][:4], "area": case["area"]})


def coarse_spaces(tier, seed):
    q = tier == "quick"
    base = {
        "mixture": ["H2O_EtOH", "MeOH_MTBE", "S2"] if q else ["H2O_EtOH", "H2O_iPOH", "MeOH_DMC", "MeOH_MTBE", "MeOH_Toluene", "S1", "S2", "S4"],
        "model": ["NRTL", "UNIQUAC"],
        "mode": ["vac", ("T", -20.0), ("p", 0.5)],
        "frac": core.lat([0.1, 0.5, 0.9, 1.1, 3.0, 10.0], seed),
        "amount": [50.0] if q else [0.047, 50.0],
        "dt": [0.5],
        "steps": [2, 3, 6],  # a 1-step run reports the initial state only
        "x0": core.lat([0.05, 0.45, 0.95], seed) + [0.0, 1.0],  # incl. pure feeds
        "basis": ["weight"],
        "T": [333.15],
        "area": [1.0],
    }

    def ok(c):
        if not U.has_model(U.get_mixture(c["mixture"]), c["model"]):
            return False
        if c["kind"] in traces.ISO and c["prog"] != "none":
            return False
        return True

    ideal = dict(base, kind=["ideal_iso", "ideal_noniso"], prog=["none", "poly", "poly_cross0", "log_t0"], steps=[1, 2, 3, 6],
                 P=[(1e-3, 2e-5), (3e-5, 4e-3), (1e-3, 8e-4), (1e-7, 2e-9)], tref_offset=[0.0, -12.0])  # incl. a weakly selective membrane:
    # both components over-drawn together keeps the mass fraction inside [0, 1], so the Composition validator is blind
    non = dict(base, kind=["nonideal_iso", "nonideal_noniso"], prog=["none", "poly", "poly_cross0", "log_t0"], steps=[1, 2, 3, 6],
               curves=[spaces.CURVE_CONFIGS["one"], spaces.CURVE_CONFIGS["two"]],
               init_perm=[None, {"values": (2.5e-2, 3.0e-5)}, {"values": (2.0e-2, 1.5e-2)}])
    # over-draw followed by back-permeation: a hot first step removes more than the feed holds, then the programme holds the
    # feed so cold that the permeate side (30 kPa, or warmer than the feed) pushes material BACK: the mass dips below zero
    # and recovers, so a guard that looks at the final state only is blind
    back = dict(base, kind=["ideal_iso", "ideal_noniso", "nonideal_iso", "nonideal_noniso"], prog=["none", "cold_hold"], T=[368.15],
                mode=[("p", 30.0), ("T", 343.15), ("p", 0.5)], frac=core.lat([0.6, 1.1, 1.3, 3.0], seed), steps=[2, 3, 6, 10], dt=[0.5, 1.0],
                x0=[1.0, 0.0] + core.lat([0.999, 0.5], seed), mixture=["H2O_EtOH", "S2"], P=[(1e-3, 2e-5), (1e-3, 8e-4)],
                curves=[spaces.CURVE_CONFIGS["one"]], init_perm=[None])
    # a programme that diverges to +inf at an interior grid time, on a membrane so small that nothing else stops the run
    div = dict(base, kind=["ideal_noniso", "nonideal_noniso"], prog=["log_sing2", "exp_overflow"], frac=[1e-15, 1e-19], dt=[1.0, 0.5], steps=[3, 4, 6, 8],
               x0=core.lat([0.45], seed), mixture=["H2O_EtOH", "S2"], P=[(1e-3, 2e-5)], ea=[(20000.0, 21000.0)], curves=[spaces.CURVE_CONFIGS["one"], spaces.CURVE_CONFIGS["two"]], init_perm=[None])
    cold = dict(div, prog=["poly_to_1K"], dt=[1.0], steps=[3, 4, 6], frac=[1e-3, 1e-15])  # both fluxes underflow to 0: the permeate fraction is 0/0
    extra = [core.Space("diverging_programme", div, ok), core.Space("programme_to_1K", cold, ok)]
    return extra + [core.Space("coarse_ideal", ideal, ok), core.Space("coarse_nonideal", non, ok), core.Space("overdraw_then_backflow", back, ok)]


def main(tier, seed):
    rep = core.Report(
        ID, "model_checking", tier, seed,
        rule="every element of the finite lattice (regular lattice of C01 plus coarse discretisations whose first step removes "
             "10%..1000% of the feed, plus programmes crossing 0 K) is run once; the admissibility invariant is evaluated on "
             "every reported state; non-trivial = returned trace judged, or the call raised; distinct = digest of the series",
        assumptions=["a raising call is always acceptable for this property", "find_best_fit memoised (deep copies)"],
        technique="explicit-state invariant checking on every reachable reported state of every trace in a finite configuration lattice")
    U.install_fit_memo()
    regular = spaces.process_spaces(tier, seed)
    for sp in regular:  # a 1-step run reports the initial state only; the regular lattice is C01's, thinned here
        sp.alphabets[sp.names.index("steps")] = [s_ for s_ in sp.alphabets[sp.names.index("steps")] if s_ > 1][-2:]
        sp.size = 1
        for a in sp.alphabets:
            sp.size *= len(a)
    for sp in coarse_spaces(tier, seed) + regular:
        spaces.prewarm(sp)
        core.run_space(rep, sp, judge)
    return rep.finish()


def replay(body):
    U.install_fit_memo()
    r1 = judge(body["case"])
    r2 = judge(body["case"])
    assert core.jsonable(r1["viol"]) == core.jsonable(r2["viol"]), "replay is not deterministic"
    for v in r1["viol"]:
        print("violation key=%s: %s" % (v["key"], v["msg"]))
    print("replayed: outcome=%s violations=%d" % (r1["outcome"], len(r1["viol"])))
    return 1 if r1["viol"] else 0
