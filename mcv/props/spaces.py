"""Configuration lattices shared by the trace-based checks (C01, C03, C08, C11, C18)."""
from .. import core, traces, universe as U


def _mixtures(tier):
    return ["H2O_EtOH", "MeOH_DMC", "S5", "S6"] if tier == "quick" else list(U.ALL_MIXTURES)


def _model_ok(c):
    return U.has_model(U.get_mixture(c["mixture"]), c["model"])


SLOW_AREA = 2e-4  # with 50 kg of feed and the shorter step: successive states differ in the 7th-8th significant digit


def _slow_ok(c):
    """the slow-run area is combined with the big feed and the shorter step only (a thin extra slice of the lattice)."""
    if c["area"] != SLOW_AREA:
        return True
    return c["amount"] == 50.0 and c["dt"] < 1.0 and c["steps"] >= 3


def ideal_space(tier, seed, coarse=False):
    q = tier == "quick"
    modes = ["vac", ("T", -20.0), ("p", 0.5)] if q else ["vac", ("T", -60.0), ("T", -20.0), ("p", 0.5), ("p", 5.0)]
    # thorough extends the quick lattice in mixtures (all 12), modes, programmes, areas and step counts; about 1 M traces
    alph = {
        "kind": ["ideal_iso", "ideal_noniso"],
        "mixture": _mixtures(tier),
        "model": ["NRTL", "UNIQUAC"],
        "mode": modes,
        "prog": ["none", "poly3", "exp", "log3"] if q else ["none", "poly", "exp", "log", "poly3", "exp3", "log3"],
        "area": [0.05, 1.0, SLOW_AREA] if q else [0.05, 1.0, 30.0, SLOW_AREA],
        "amount": [0.047, 50.0],
        "dt": core.lat([0.1, 2.0], seed),
        "steps": [1, 3, 6] if q else [1, 3, 6, 12],
        "x0": [5e-4] + core.lat([0.1, 0.45, 0.9], seed) + ([] if q else [0.9996]),  # incl. trace feeds (fractions below 1e-3)
        "basis": ["weight", "molar"],
        "T": core.lat([313.15, 353.15], seed),
        "P": [(1e-3, 2e-5)],
        "tref_offset": [0.0, -12.0],
    }

    def ok(c):
        if not _model_ok(c):
            return False
        if c["kind"] == "ideal_iso" and c["prog"] != "none":
            return False
        return _slow_ok(c)

    return core.Space("ideal_processes", alph, ok)


CURVE_CONFIGS = {
    "one": {"law": "lawA", "temps": [333.15]},
    "two": {"law": "lawA", "temps": [343.15, 313.15]},  # NOT in ascending temperature order
    "oneB_molar": {"law": "lawB", "temps": [333.15], "basis": "molar"},
    "threeB_SI": {"law": "lawB", "temps": [333.15, 313.15, 353.15], "units": "SI"},
    "two_sameT": {"law": "lawB", "temps": [333.15, 333.15]},  # two curves, one temperature: still a multi-curve set
    "oneC": {"law": "lawC", "temps": [333.15]},
}


def nonideal_space(tier, seed):
    q = tier == "quick"
    # thorough: about 1.1 M traces
    alph = {
        "kind": ["nonideal_iso", "nonideal_noniso"],
        "mixture": ["H2O_EtOH", "S5"] if q else ["H2O_EtOH", "MeOH_DMC", "S2", "S5"],
        "model": ["NRTL", "UNIQUAC"],
        "mode": ["vac", ("T", -20.0), ("p", 0.5)] if q else ["vac", ("T", -60.0), ("T", -20.0), ("p", 0.5)],
        "prog": ["none", "poly3", "exp", "log3"] if q else ["none", "poly", "exp3", "log3"],
        "curves": [CURVE_CONFIGS["one"], CURVE_CONFIGS["two"]] if q else list(CURVE_CONFIGS.values()),
        # initial permeances may be stated in a different unit per component (first in kg/(m2 h kPa), second in SI)
        "init_perm": [None, {"values": (2.5e-2, 3.0e-5), "units": ["kg/(m2*h*kPa)", "SI"]}] if q else [
            None, {"values": (2.5e-2, 3.0e-5)}, {"values": (1.0e-2, 8.0e-5), "units": "GPU"},
            {"values": (2.5e-2, 3.0e-5), "units": ["kg/(m2*h*kPa)", "SI"]}, {"values": (1.0e-2, 8.0e-5), "units": ["GPU", "kg/(m2*h*kPa)"]}],
        "area": [0.05, 1.0, SLOW_AREA],
        "amount": [0.047, 50.0],
        "dt": core.lat([0.1, 2.0], seed),
        "steps": [1, 3, 6] if q else [1, 3, 6, 12],
        "x0": [4e-4] + (core.lat([0.1, 0.45], seed) if q else core.lat([0.1, 0.45, 0.8], seed)),
        "basis": ["weight", "molar"],
        "T": [333.15, 318.15, 333.4] if q else [333.15, 318.15, 351.15, 333.4],  # 333.4: close to, not at, the curve temperature
    }

    def ok(c):
        if not _model_ok(c):
            return False
        if c["kind"] == "nonideal_iso" and c["prog"] != "none":
            return False
        return _slow_ok(c)

    return core.Space("nonideal_processes", alph, ok)


def process_spaces(tier, seed, purpose="mass"):
    return [ideal_space(tier, seed), nonideal_space(tier, seed)]


def prewarm(space):
    """Run the fits of every distinct (curve configuration, mixture, fit options) once in the parent
    so that forked workers inherit the memo."""
    if "curves" not in getattr(space, "names", []):
        return
    seen = set()
    for i in range(space.size):
        c = space.case(i)
        if c is None:
            continue
        key = core.digest_of([c["curves"], c["mixture"], c.get("fit_kwargs"), c["kind"] in traces.ISO])
        if key in seen:
            continue
        seen.add(key)
        s = traces.Setup(dict(c, steps=1))
        s.run(steps=1)
