"""E2 - process models as transition systems.

A process run is called once; its returned series are read as a trace s_0..s_{N-1}.  The reference
stepper (refmodel.py) predicts s_{k+1} from the *reported* s_k and the reported fluxes, so every
transition is judged in isolation.  A raising run is accepted only if the reference stepper, driven
by the real standalone flux solver, confirms that the run had to leave the admissible region or
that the solver itself raises there (`justify_raise`).
"""
import math

from . import core, refmodel, universe as U

KINDS = ["ideal_iso", "ideal_noniso", "nonideal_iso", "nonideal_noniso"]
TRACE_BUDGET = 5000


def is_slow(exc):
    from . import solver as _solver
    return isinstance(exc, (_solver.Budget, _solver.Lasso))
IDEAL = {"ideal_iso", "ideal_noniso"}
ISO = {"ideal_iso", "nonideal_iso"}


class Setup:
    """Everything needed to call one process model, built from JSON-able case coordinates."""

    def __init__(self, case):
        c = dict(case)
        self.case = c
        self.kind = c["kind"]
        self.mixture = U.get_mixture(c["mixture"])
        self.model = c.get("model", "NRTL")
        self.t0 = c["T"]
        self.steps = c["steps"]
        self.dt = c["dt"]
        self.precision = c.get("precision", 5e-5)
        self.mode = tuple(c["mode"]) if isinstance(c["mode"], (list, tuple)) else c["mode"]
        self.prog = c.get("prog", "none")
        self.area = c["area"]
        self.amount = c["amount"]
        self.x0 = c["x0"]
        self.basis = c.get("basis", "weight")
        p1, p2 = c.get("P", (1e-2, 1e-4))
        ea = c.get("ea", (25000.0, 60000.0))
        ea = tuple(tuple(e) if isinstance(e, list) else e for e in ea)  # ("fit", value): the energy is left unstated (regressed)
        extra = tuple(c.get("extra_temps_offsets", ()))
        self.curve_set = None
        self.init_perm = None
        self.fit_kwargs = {}
        tref = c["tref_abs"] if "tref_abs" in c else self.t0 + c.get("tref_offset", 0.0)
        if self.kind in IDEAL:
            self.membrane = U.make_membrane(self.mixture, p1, p2, t_ref=tref, ea1=ea[0], ea2=ea[1],
                                            units=c.get("exp_units", U.Units.kg_m2_h_kPa), extra_temps=tuple(tref + o for o in extra))
        else:
            cs = c.get("curves", {"law": "lawA", "temps": [333.15]})
            self.curve_set = U.make_curve_set(self.mixture, law=cs["law"], temps=tuple(cs["temps"]),
                                              basis=cs.get("basis", "weight"),
                                              units=cs.get("units", U.Units.kg_m2_h_kPa), xs=cs.get("xs"))
            self.membrane = U.make_membrane(self.mixture, p1, p2, t_ref=tref, ea1=ea[0], ea2=ea[1],
                                            curve_sets=[self.curve_set])
            ip = c.get("init_perm")
            if ip is not None:
                units = ip.get("units", U.Units.kg_m2_h_kPa)
                units = list(units) if isinstance(units, (list, tuple)) else [units, units]  # one unit per component is allowed
                pair = []
                for v, comp, un in zip(ip["values"], (self.mixture.first_component, self.mixture.second_component), units):
                    pair.append(U.exact_permeance(v, un, comp.molecular_weight))
                self.init_perm = tuple(pair)
            self.fit_kwargs = dict(c.get("fit_kwargs", {}))
        # the observing subclass is semantically transparent.  Trace checks do not wait for flux calculations that need more
        # than TRACE_BUDGET driving-force evaluations (near-equilibrium states run into the library's bound of 1e5
        # iterations, 3-5 s each): such a call raises solver.Budget and the case is counted as not judged (C10 owns those)
        from . import solver as _solver
        self.pv = _solver.ObservedPV(membrane=self.membrane, mixture=self.mixture).observe(budget=TRACE_BUDGET, detect=False)
        if c.get("budget"):
            # twin checks only: a flux calculation needing more than `budget` evaluations raises solver.Budget
            # (an Exception), which those checks treat like any other raise: the pair is not judged
            from . import solver
            self.pv = solver.ObservedPV(membrane=self.membrane, mixture=self.mixture).observe(budget=c["budget"], detect=False)
        self.conditions = U.make_conditions(self.mixture, self.area, self.t0, self.amount, self.x0, self.basis,
                                            self.mode, self.prog)

    @property
    def x0_mass(self):
        return self.x0  # case coordinates are always stated as mass fraction; `basis` only re-expresses them

    def run(self, steps=None, conditions=None, dt=None):
        steps = self.steps if steps is None else steps
        dt = self.dt if dt is None else dt
        conditions = self.conditions if conditions is None else conditions
        kw = dict(number_of_steps=steps, delta_hours=dt, conditions=conditions, precision=self.precision,
                  calculation_type=self.model)
        if self.kind == "ideal_iso":
            return core.call(self.pv.ideal_isothermal_process, **kw)
        if self.kind == "ideal_noniso":
            return core.call(self.pv.ideal_non_isothermal_process, **kw)
        kw.update(diffusion_curve_set=self.curve_set, initial_permeances=self.init_perm, **self.fit_kwargs)
        if self.kind == "nonideal_iso":
            return core.call(self.pv.non_ideal_isothermal_process, **kw)
        return core.call(self.pv.non_ideal_non_isothermal_process, **kw)

    def solver(self, t, x_mass, perms):
        kw = U.permeate_kwargs(self.mode, self.t0)
        return core.call(
            self.pv.calculate_partial_fluxes, feed_temperature=t,
            composition=U.Composition(p=x_mass, type=U.CompositionType.weight), precision=self.precision,
            first_component_permeance=U.Permeance(value=perms[0]), second_component_permeance=U.Permeance(value=perms[1]),
            calculation_type=self.model, **kw)


def extract(pm):
    """Plain-number view of a returned ProcessModel (raises on malformed results)."""
    n = len(pm.time)
    tr = {
        "n": n,
        "time": [float(v) for v in pm.time],
        "m": [float(v) for v in pm.feed_mass],
        "x": [float(c.p) for c in pm.feed_compositions],
        "x_type": [c.type for c in pm.feed_compositions],
        "T": [float(v) for v in pm.feed_temperature],
        "y": [float(c.p) for c in pm.permeate_composition],
        "y_type": [c.type for c in pm.permeate_composition],
        "J": [(float(j[0]), float(j[1])) for j in pm.partial_fluxes],
        "P": [(float(p[0].value), float(p[1].value)) for p in pm.permeances],
        "P_units": [(p[0].units, p[1].units) for p in pm.permeances],
        "Q": [float(v) for v in pm.feed_evaporation_heat],
        "Qc": [None if v is None else float(v) for v in pm.permeate_condensation_heat],
        "Tp": list(pm.permeate_temperature),
        "pp": list(pm.permeate_pressure),
    }
    return tr


SERIES = ["time", "m", "x", "T", "y", "J", "P", "Q", "Qc", "Tp", "pp"]


def check_shape(setup, tr, steps=None):
    """series lengths, initial state, time grid (C01)."""
    v = []
    n = setup.steps if steps is None else steps
    for k in SERIES:
        if len(tr[k]) != n:
            v.append(core.viol("C01/series_length/" + k, "series %s has %d entries for %d requested steps" % (k, len(tr[k]), n),
                               kind=setup.kind))
    if v:
        return v
    if not core.bit_eq(tr["m"][0], setup.amount):
        v.append(core.viol("C01/initial_mass", "feed_mass[0]=%r, stated amount %r" % (tr["m"][0], setup.amount)))
    if not core.close(tr["x"][0], setup.x0_mass, core.ULP):
        v.append(core.viol("C01/initial_composition", "x[0]=%r but stated composition is mass fraction %r (basis %s)" % (
            tr["x"][0], setup.x0_mass, setup.basis)))
    if not core.bit_eq(tr["T"][0], setup.t0):
        v.append(core.viol("C01/initial_temperature", "T[0]=%r, stated %r" % (tr["T"][0], setup.t0)))
    if any(t != "weight" for t in tr["x_type"]):
        v.append(core.viol("C01/feed_basis", "process model reports a feed composition that is not a mass fraction"))
    for k in range(n):
        if not core.close(tr["time"][k], k * setup.dt, core.ULP, 1e-300):
            v.append(core.viol("C01/time_grid", "time[%d]=%r, expected %r" % (k, tr["time"][k], k * setup.dt)))
            break
    return v


def check_mass(setup, tr):
    """per-transition mass balance (C01)."""
    v = []
    a, dt = setup.area, setup.dt
    for k in range(tr["n"] - 1):
        m_next, m1_next = refmodel.mass_step(tr["m"][k], tr["x"][k], tr["J"][k], a, dt)
        scale = abs(tr["m"][k]) + abs(tr["J"][k][0] * a * dt) + abs(tr["J"][k][1] * a * dt)
        if not abs(tr["m"][k + 1] - m_next) <= core.ULP * scale:
            v.append(core.viol("C01/total_mass/" + setup.kind, "step %d: feed mass %r -> %r, balance gives %r" % (
                k, tr["m"][k], tr["m"][k + 1], m_next), step=k))
            break
        if not abs(tr["m"][k + 1] * tr["x"][k + 1] - m1_next) <= core.ULP * scale:
            v.append(core.viol("C01/component_mass/" + setup.kind,
                               "step %d: first-component mass %r, balance gives %r" % (
                                   k, tr["m"][k + 1] * tr["x"][k + 1], m1_next), step=k))
            break
    return v


def check_heat(setup, tr):
    """evaporation heat at every step, temperature evolution (C03)."""
    v = []
    mix = setup.mixture
    a, dt = setup.area, setup.dt
    n = tr["n"]
    for k in range(n):
        q = refmodel.evaporation_heat(mix, tr["T"][k], tr["J"][k], a, dt)
        scale = refmodel.evaporation_heat_scale(mix, tr["T"][k], tr["J"][k], a, dt)
        if not abs(tr["Q"][k] - q) <= core.ULP * scale + 1e-300:
            v.append(core.viol("C03/evaporation_heat/" + setup.kind, "step %d: evaporation heat %r, own-latent-heat sum %r" % (
                k, tr["Q"][k], q), step=k))
            break
    has_tp = setup.conditions.permeate_temperature is not None
    for k in range(n):
        if (tr["Qc"][k] is not None) != has_tp:
            v.append(core.viol("C03/condensation_heat_presence/" + setup.kind,
                               "step %d: condensation heat %r although permeate temperature %s specified" % (
                                   k, tr["Qc"][k], "is" if has_tp else "is not"), step=k))
            break
        if tr["Qc"][k] is not None and not math.isfinite(tr["Qc"][k]):
            v.append(core.viol("C03/condensation_heat_presence/" + setup.kind, "step %d: condensation heat %r" % (k, tr["Qc"][k])))
            break
    for k in range(n - 1):
        if setup.kind in ISO:
            if not core.bit_eq(tr["T"][k + 1], tr["T"][0]):
                v.append(core.viol("C03/isothermal_temperature/" + setup.kind, "step %d: temperature %r in an isothermal model started at %r" % (
                    k + 1, tr["T"][k + 1], tr["T"][0])))
                break
        elif setup.prog == "none":
            t_next = refmodel.self_cooling(mix, tr["T"][k], tr["m"][k], tr["x"][k], tr["Q"][k])
            if not abs(tr["T"][k + 1] - t_next) <= core.ULP * (abs(tr["T"][k]) + abs(tr["T"][k] - t_next)):
                v.append(core.viol("C03/self_cooling/" + setup.kind, "step %d: next temperature %r, heat balance gives %r" % (
                    k, tr["T"][k + 1], t_next), step=k))
                break
        else:
            t_ref = U.programme_value(setup.prog, tr["time"][k + 1])
            # k*dt vs (k-1)*dt+dt differ in the last bits; allow the programme's local slope times that
            slope = abs(U.programme_value(setup.prog, tr["time"][k + 1] * (1 + 1e-9)) - t_ref) / 1e-9
            if not abs(tr["T"][k + 1] - t_ref) <= core.ULP * abs(t_ref) + 8e-16 * slope + 1e-300:
                v.append(core.viol("C03/temperature_programme/" + setup.kind, "step %d: temperature %r, programme(time=%r) = %r" % (
                    k + 1, tr["T"][k + 1], tr["time"][k + 1], t_ref), step=k))
                break
    return v


def admissible_state(m, x, t, tol_m=0.0):
    return m > tol_m and 0.0 <= x <= 1.0 and 0.0 < t < math.inf


def lookahead(setup, tr):
    """state N (the one every model computes and pops) from the last reported state, by the
    reference stepper.  Returns (m, x, T)."""
    k = tr["n"] - 1
    m_next, m1_next = refmodel.mass_step(tr["m"][k], tr["x"][k], tr["J"][k], setup.area, setup.dt)
    x_next = m1_next / m_next if m_next != 0 else math.nan
    try:
        if setup.kind in ISO:
            t_next = tr["T"][k]
        elif setup.prog == "none":
            t_next = refmodel.self_cooling(setup.mixture, tr["T"][k], tr["m"][k], tr["x"][k], tr["Q"][k])
        else:
            t_next = U.programme_value(setup.prog, tr["time"][k] + setup.dt)
        t_next = float(t_next)
    except (ArithmeticError, ValueError, TypeError):
        t_next = math.nan
    return m_next, x_next, t_next


def permeances_at(setup, pm, tr, m_x_t, j):
    """permeances the model would use at look-ahead state j (j = tr['n'])."""
    m, x, t = m_x_t
    if setup.kind == "ideal_iso":
        return tr["P"][0]
    if setup.kind == "ideal_noniso":
        s1, p1 = core.call(setup.membrane.get_permeance, t, setup.mixture.first_component)
        s2, p2 = core.call(setup.membrane.get_permeance, t, setup.mixture.second_component)
        if s1 != "ok" or s2 != "ok":
            return None
        return (float(p1.value), float(p2.value))
    fits = pm.permeance_fits
    f1 = tr["P"][0][0] / float(fits[0](tr["x"][0], tr["T"][0]))
    f2 = tr["P"][0][1] / float(fits[1](tr["x"][0], tr["T"][0]))
    xx = tr["x"][j - 1] if setup.kind == "nonideal_iso" else x
    vals = (float(fits[0](xx, t)) * f1, float(fits[1](xx, t)) * f2)
    return tuple(max(v, 0.0) if v == v else v for v in vals)  # Permeance clamps negatives to 0


def justify_raise(setup, exc):
    """The N-step run raised.  Find the largest j < N whose run returns; the (j+1)-step run raises
    at loop index j.  Confirm with the reference stepper + real solver that it had to.
    Returns (verdict, reason, j) with verdict in {'justified', 'unjustified', 'undecided'}."""
    n = setup.steps
    j = 0
    pm = None
    lo, hi = 1, n - 1  # runs are deterministic prefixes of each other: "the j-step run returns" is monotone in j
    while lo <= hi:
        mid = (lo + hi) // 2
        st, res = setup.run(steps=mid)
        if st == "ok":
            j, pm = mid, res
            lo = mid + 1
        else:
            hi = mid - 1
    tolm = 1e-9
    if j == 0:
        # the very first step fails: initial state known from the conditions
        m, x, t = setup.amount, setup.x0_mass, setup.t0
        if setup.kind in IDEAL:
            s1, p1 = core.call(setup.membrane.get_permeance, t, setup.mixture.first_component)
            s2, p2 = core.call(setup.membrane.get_permeance, t, setup.mixture.second_component)
            if s1 != "ok" or s2 != "ok":
                return "justified", "membrane permeance query raises at the initial state", 0
            perms = (float(p1.value), float(p2.value))
        elif setup.init_perm is not None:
            perms = (float(setup.init_perm[0].convert(U.Units.kg_m2_h_kPa, setup.mixture.first_component).value),
                     float(setup.init_perm[1].convert(U.Units.kg_m2_h_kPa, setup.mixture.second_component).value))
        else:
            # permeances of step 0 do not depend on the membrane area: observe them on a run that cannot exhaust the feed
            import copy
            cond = copy.copy(setup.conditions)
            cond.membrane_area = setup.area * 1e-12
            st0, pm0 = setup.run(steps=1, conditions=cond)
            if st0 != "ok":
                return "undecided", "first step of a non-ideal model raises also with a vanishing area: %r" % (pm0,), 0
            perms = (float(pm0.permeances[0][0].value), float(pm0.permeances[0][1].value))
        time_j = 0.0
        tr = None
    else:
        try:
            tr = extract(pm)
        except Exception as e:  # noqa: BLE001
            return "unjustified", "shorter run returned a malformed model: %r" % (e,), j
        if any(len(tr[k_]) != j for k_ in SERIES):
            return "unjustified", "the %d-step run returned series of lengths %r" % (j, {k_: len(tr[k_]) for k_ in SERIES if len(tr[k_]) != j}), j
        m, x, t = lookahead(setup, tr)
        if not (m > tolm * tr["m"][j - 1]) or not (tolm <= x <= 1 - tolm) or not (0 < t < math.inf):
            return "justified", "state %d leaves the admissible region (m=%r x=%r T=%r)" % (j, m, x, t), j
        perms = permeances_at(setup, pm, tr, (m, x, t), j)
        if perms is None or not all(math.isfinite(p) for p in perms):
            return "justified", "permeances undefined at state %d" % j, j
        time_j = j * setup.dt
    st, flux = setup.solver(t, x, perms)
    if st != "ok":
        if is_slow(flux):
            return "undecided", "flux calculation at state %d needs more than %d evaluations" % (j, TRACE_BUDGET), j
        return "justified", "standalone flux solver raises at state %d: %r" % (j, flux), j
    flux = (float(flux[0]), float(flux[1]))
    if not all(math.isfinite(f) for f in flux):
        return "justified", "non-finite fluxes at state %d" % j, j
    tot = flux[0] + flux[1]
    y = flux[0] / tot if tot != 0 else math.nan
    if not (tolm <= y <= 1 - tolm):
        return "justified", "permeate composition %r of state %d is not a valid fraction" % (y, j), j
    m2, m1 = refmodel.mass_step(m, x, flux, setup.area, setup.dt)
    x2 = m1 / m2 if m2 != 0 else math.nan
    if setup.kind in ISO:
        t2 = t
    else:
        try:
            if setup.prog == "none":
                q = refmodel.evaporation_heat(setup.mixture, t, flux, setup.area, setup.dt)
                t2 = float(refmodel.self_cooling(setup.mixture, t, m, x, q))
            else:
                t2 = float(U.programme_value(setup.prog, time_j + setup.dt))
        except (ArithmeticError, ValueError, TypeError):
            t2 = math.nan
    if not (m2 > tolm * m) or not (tolm <= x2 <= 1 - tolm) or not (0 < t2 < math.inf):
        return "justified", "state %d leaves the admissible region (m=%r x=%r T=%r)" % (j + 1, m2, x2, t2), j
    return "unjustified", "reference stepper and real solver reach admissible state %d (m=%r x=%r T=%r) but the %d-step run raised %r" % (
        j + 1, m2, x2, t2, j + 1, exc), j


def trace_digest(tr):
    return core.digest_of([tr["m"], tr["x"], tr["T"], tr["J"], tr["Q"]])


# ---------------------------------------------------------------------------------------------
# recycled caller objects: a decoy run first, then every caller-owned object is edited IN PLACE to the target case
# ---------------------------------------------------------------------------------------------
def _decoy_case(case):
    c = dict(case)
    c["x0"] = 0.37 if abs(case["x0"] - 0.37) > 0.05 else 0.58
    c["area"] = case["area"] * 3.0
    c["amount"] = case["amount"] * 0.5
    c["T"] = case["T"] + 6.5
    if "tref_abs" not in c:
        c["tref_abs"] = case["T"] + case.get("tref_offset", 0.0) + 4.0  # the decoy membrane's experiments sit elsewhere
    else:
        c["tref_abs"] = case["tref_abs"] + 4.0
    p = case.get("P", (1e-2, 1e-4))
    c["P"] = (p[0] * 1.7, p[1] * 0.6)
    ea = case.get("ea", (25000.0, 60000.0))
    c["ea"] = tuple((e + 7000.0) if isinstance(e, (int, float)) else e for e in ea)
    if case.get("prog", "none") != "none":
        c["prog"] = "exp3" if case["prog"].startswith("poly") else "poly"  # a programme of ANOTHER type
    if case.get("init_perm") is not None:
        ip = dict(case["init_perm"])
        ip["values"] = [ip["values"][0] * 1.4, ip["values"][1] * 0.8]
        c["init_perm"] = ip
    c["steps"] = min(case["steps"], 2)
    return c


def recycled_objects_run(case):
    """Runs a decoy case, then sets every caller-owned object of the decoy (Conditions, its Composition and programme, the membrane's
    experiments, the initial permeances) IN PLACE to the values of `case` and runs `case` on those very objects (same Pervaporation
    object too).  Returns (status, model) of that run, or None when an object refuses in-place edits (frozen classes are legitimate)."""
    target = Setup(case)
    try:
        decoy = Setup(_decoy_case(case))
    except Exception:  # noqa: BLE001 - no decoy for this case
        return None
    decoy.run()
    try:
        dc, tc = decoy.conditions, target.conditions
        dc.membrane_area = tc.membrane_area
        dc.initial_feed_temperature = tc.initial_feed_temperature
        dc.initial_feed_amount = tc.initial_feed_amount
        dc.initial_feed_composition.p = tc.initial_feed_composition.p
        dc.initial_feed_composition.type = tc.initial_feed_composition.type
        dc.permeate_temperature = tc.permeate_temperature
        dc.permeate_pressure = tc.permeate_pressure
        if dc.temperature_program is not None and tc.temperature_program is not None:
            dc.temperature_program.type = tc.temperature_program.type
            dc.temperature_program.coefficients = tc.temperature_program.coefficients
        else:
            dc.temperature_program = tc.temperature_program
        de, te = decoy.membrane.ideal_experiments.experiments, target.membrane.ideal_experiments.experiments
        if len(de) != len(te):
            return None
        for a, b in zip(de, te):
            a.temperature = b.temperature
            a.permeance.value = b.permeance.value
            a.permeance.units = b.permeance.units
            a.activation_energy = b.activation_energy
        if target.init_perm is not None:
            for a, b in zip(decoy.init_perm, target.init_perm):
                a.value, a.units = b.value, b.units
    except (AttributeError, TypeError) as e:  # frozen / slotted classes: in-place edits are not part of their contract
        if "frozen" in type(e).__name__.lower() or "frozen" in str(e).lower() or "can't set" in str(e).lower():
            return None
        raise
    decoy.steps, decoy.dt, decoy.precision, decoy.model = target.steps, target.dt, target.precision, target.model
    decoy.fit_kwargs = target.fit_kwargs
    return decoy.run()


def check_recycled(case, tr, key):
    """violations (list) of the recycled-caller-objects sequence against the fresh-object trace `tr`."""
    r = recycled_objects_run(case)
    if r is None:
        return [], 0
    st, pm = r
    if st != "ok":
        from . import solver as _s
        if isinstance(pm, _s.Budget):
            return [], 0
        return [core.viol(key, "the run returns on fresh objects but raises %r when the caller's objects (Conditions, Composition, programme, membrane experiments, "
                               "initial permeances, Pervaporation object) were used for another run first and then set in place to this run's values" % (pm,))], 1
    try:
        t2 = extract(pm)
    except Exception as e:  # noqa: BLE001
        return [core.viol(key, "recycled-objects run returns an unreadable model: %r" % (e,))], 1
    if trace_digest(t2) != trace_digest(tr):
        return [core.viol(key, "the trace differs when the caller's objects (Conditions, Composition, programme, membrane experiments, initial permeances, "
                               "Pervaporation object) were used for another run first and then set in place to this run's values",
                          fresh=[tr["m"][:3], tr["T"][:3], tr["J"][:2], tr["Q"][:2]], recycled=[t2["m"][:3], t2["T"][:3], t2["J"][:2], t2["Q"][:2]])], 1
    return [], 1
