#!/usr/bin/env python3
"""tools/mkmutant.py <name> <relative file> <<< JSON [[old, new, occurrence_index or null], ...]
Writes mutants/<name>.diff (a unified diff against /repo's working tree); /repo is not touched."""
import difflib, json, sys, os
name, rel = sys.argv[1], sys.argv[2]
edits = json.load(sys.stdin)
src = open(os.path.join("/repo", rel)).read()
new = src
for old, rep, occ in edits:
    cnt = new.count(old)
    if cnt == 0:
        sys.exit("pattern not found: %r" % old)
    if occ is None:
        if cnt != 1:
            sys.exit("pattern occurs %d times, give an occurrence index: %r" % (cnt, old))
        new = new.replace(old, rep)
    elif occ == "all":
        new = new.replace(old, rep)
    else:
        parts = new.split(old)
        new = old.join(parts[:occ + 1]) + rep + old.join(parts[occ + 1:])
diff = "".join(difflib.unified_diff(src.splitlines(True), new.splitlines(True), "a/" + rel, "b/" + rel))
out = os.path.join(os.path.dirname(os.path.dirname(os.path.abspath(__file__))), "mutants", name + ".diff")
mode = "a" if os.environ.get("APPEND") else "w"
open(out, mode).write(diff)
print("wrote", out, len(diff.splitlines()), "lines")
