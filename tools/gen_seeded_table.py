#!/usr/bin/env python3
"""Rewrites DESIGN.md section 8.5 from seeded/*/meta.json."""
import glob, json, os, re
HERE = os.path.dirname(os.path.dirname(os.path.abspath(__file__)))
rows = []
missed = 0
for f in sorted(glob.glob(os.path.join(HERE, "seeded", "*", "meta.json"))):
    m = json.load(open(f)); name = f.split("/")[-2]
    ck = m.get("checks_quick", {})
    caught = "; ".join("%s: %s" % (k, ", ".join(x.split("/", 1)[1] for x in v["keys"][:2]) if v["exit"] == 1 else "%s: MISSED" % k) for k, v in ck.items())
    hist = m.get("history", "")
    if "initially MISSED" in hist:
        missed += 1
    rows.append((name, m.get("tests", "?").split(" in ")[0], caught, hist.replace("|", "/")))
out = ["", "### 8.5 Independent seeded changes (sub-agents; `seeded/<id>/`)", "",
       "Each was written by a fresh sub-agent that saw only the property record and its own scratch worktree (nothing from /verif); round 2 (`_r2`)",
       "agents were additionally told which ideas round 1 had already used (and so on for `_r3` .. `_r7`; round 6 asked for history- and state-dependent changes, round 7 for numerical and structural corners). I re-verified every one with `tools/seed_accept.py`: the patch applies to",
       "/repo's HEAD, the unedited suite passes (102), the author's demo exits 1 with and 0 without the change, and the named check reports it.",
       "%d changes; %d exposed a weakness of my machinery at first, each of which I then repaired by enlarging a lattice or adding an oracle" % (len(rows), missed),
       "(never by loosening anything); the last column says what was wrong and what was done.", "",
       "| seeded change | tests | caught by (quick tier): keys | history |", "|---|---|---|---|"]
for r in rows:
    out.append("| %s | %s | %s | %s |" % r)
out += ["", "What the misses taught:",
        "* non-generic lattice values hide slips: a programme coefficient equal to 0, a single unit per curve or per component pair, a permeate pressure that is never 0, only highly selective membranes, no query a few mK beside an experiment, no millikelvin intervals;",
        "* cross-comparison of entry points cannot see a slip in code they share: independent oracles are needed ('model honoured on both sides', permeances from the membrane rather than the reported ones);",
        "* purely functional lattices miss history-dependent slips: call SEQUENCES on one object are part of the alphabets now (coarse-then-fine precision, other model first, a Composition object reused across mixtures, near-collision sibling operations in the purity menus);",
        "* an early 'not judged' return must not skip independent parts of an oracle (C09); pairs in which one twin raises carry information too (C06 outcome asymmetry by margin);",
        "* dangerous states found by one exploration should be fed to every other entry point (C10);",
        "* round 5: values CLOSE TO but not AT a special value (process temperature 0.25 K beside the curve temperature), signs (negative and zero activation energies), slow runs whose states differ in the 7th digit, programmes whose value at t = 0 differs from the stated initial temperature, the caller editing returned objects in place, interpreter-wide switches (numpy error mode, attrs validators) as part of the canonical state, and thin hang regions located by bisection with the library's own step function (neutral 2-cycles of pressure mode) rather than hoped for on a grid; slowly contracting iterations (hundreds of evaluations) judged too, strongly non-ideal parameter sets, a raising inverse where the forward call returns, the caller editing a membrane's experiment list between queries, no-driving-force pressures and zero-point curves in the specification cells.", ""]
p = os.path.join(HERE, "DESIGN.md")
s = open(p).read()
s = re.sub(r"\n### 8\.5 Independent seeded changes.*", "", s, flags=re.S)
open(p, "w").write(s.rstrip("\n") + "\n" + "\n".join(out))
print(len(rows), "rows,", missed, "initially missed")
