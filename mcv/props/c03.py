"""C03 - heat balance: evaporation heat, self-cooling and temperature programme are exact.

E2 over the same trace lattice as C01.  Per transition: evaporation heat = sum_i dm_i * own latent
heat per kg at T[k]; self-cooling / programme / isothermal temperature evolution; condensation heat
reported iff a permeate temperature is specified.  Cross-model: the isothermal and non-isothermal
model of the same family, started from the same conditions, agree at step 0.
"""
import math

from .. import core, traces, universe as U
from . import spaces

ID = "C03"
SIBLING = {"ideal_iso": "ideal_noniso", "nonideal_iso": "nonideal_noniso"}


def cross_model(setup, case, tr, prog="none"):
    """step 0 of the sibling non-isothermal model (self-cooling, or under a temperature programme whose value at t = 0
    differs from the stated initial temperature) must report the same fluxes and heats."""
    sib = traces.Setup(dict(case, kind=SIBLING[setup.kind], steps=1, prog=prog))
    st, pm = sib.run()
    if st != "ok":
        return [], 0  # the sibling may legitimately raise (self-cooling below 0 K in one coarse step): not judged
    t2 = traces.extract(pm)
    v = []
    if setup.kind == "ideal_iso":
        same = core.bit_eq(t2["J"][0][0], tr["J"][0][0]) and core.bit_eq(t2["J"][0][1], tr["J"][0][1])
        tolq = core.ULP
    else:
        # single-curve fits are Arrhenius-rescaled by the non-isothermal model even at the curve temperature:
        # same real number, different rounding; outside vacuum the solver exit may then fall one iteration apart
        tol = 1e-10 if setup.mode == "vac" else 20 * setup.precision
        same = core.close(t2["J"][0][0], tr["J"][0][0], tol) and core.close(t2["J"][0][1], tr["J"][0][1], tol)
        tolq = tol
    if not same:
        v.append(core.viol("C03/cross_model_fluxes/" + setup.kind, "step-0 fluxes differ between isothermal %r and non-isothermal %r model" % (
            tr["J"][0], t2["J"][0])))
    scale = traces.refmodel.evaporation_heat_scale(setup.mixture, tr["T"][0], tr["J"][0], setup.area, setup.dt)
    if not abs(t2["Q"][0] - tr["Q"][0]) <= tolq * scale + 1e-300:
        v.append(core.viol("C03/cross_model_heat/" + setup.kind, "step-0 evaporation heat differs between isothermal %r and non-isothermal %r model" % (
            tr["Q"][0], t2["Q"][0])))
    if (t2["Qc"][0] is None) != (tr["Qc"][0] is None):
        v.append(core.viol("C03/cross_model_condensation/" + setup.kind, "condensation heat reported by only one of the two models"))
    return v, 1


def judge(case):
    setup = traces.Setup(case)
    st, pm = setup.run()
    if st == "raise":
        return core.result("raised", nontrivial=False, traces=0)
    try:
        tr = traces.extract(pm)
    except Exception as e:  # noqa: BLE001
        return core.result("malformed", viol=[core.viol("C03/malformed_result/" + setup.kind, "returned model cannot be read: %r" % (e,))])
    if any(len(tr[k]) != setup.steps for k in traces.SERIES):
        return core.result("bad-shape", nontrivial=False)  # C01's business
    v = traces.check_heat(setup, tr)
    extra = 0
    if not v and setup.kind in SIBLING and setup.prog == "none":
        v2, extra = cross_model(setup, case, tr)
        v.extend(v2)
        if not v:
            v3, e3 = cross_model(setup, case, tr, prog="poly3" if abs(setup.t0 - 318.15) > 1 else "exp3")
            v.extend(v3)
            extra += e3
    # recycled caller objects (a decoy run with a programme of another type, another membrane state ...; then every caller-owned
    # object is set in place to this case): the temperatures and heats must be those of the fresh-object run
    if not v and setup.steps == 3:
        v4, e4 = traces.check_recycled(case, tr, "C03/depends_on_earlier_run/" + setup.kind)
        v.extend(v4)
        extra += e4
    return core.result("returned", digest=traces.trace_digest(tr), viol=v, states=tr["n"] + extra,
                       transitions=max(tr["n"] - 1, 0) + extra, traces=1 + extra, cross_model=extra,
                       sample={"T": tr["T"][:3], "Q": tr["Q"][:3], "Qc": tr["Qc"][:2]})


def main(tier, seed):
    rep = core.Report(
        ID, "model_checking", tier, seed,
        rule="every element of the finite process-configuration lattice is run once; non-trivial = the run returned and "
             "every step's evaporation heat and every transition's temperature update was compared with the reference "
             "stepper; distinct = distinct digest of the reported series",
        assumptions=["Component.get_vaporisation_heat / get_specific_heat taken as given (judged by C13)",
                     "flux solver taken as given (C02/C10)", "find_best_fit memoised (deep copies)",
                     "the value of the condensation heat is not judged (the statement gives no formula), only its presence"],
        technique="explicit-state trace conformance against a reference stepper, exhaustive over a finite configuration lattice")
    U.install_fit_memo()
    for sp in spaces.process_spaces(tier, seed, purpose="heat"):
        spaces.prewarm(sp)
        core.run_space(rep, sp, judge)
    return rep.finish()


def replay(body):
    U.install_fit_memo()
    r1 = judge(body["case"])
    r2 = judge(body["case"])
    assert core.jsonable(r1["viol"]) == core.jsonable(r2["viol"]), "replay is not deterministic"
    for v in r1["viol"]:
        print("violation key=%s: %s" % (v["key"], v["msg"]))
    print("replayed: outcome=%s violations=%d" % (r1["outcome"], len(r1["viol"])))
    return 1 if r1["viol"] else 0
