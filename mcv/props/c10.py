"""C10 - the flux calculation always terminates.

E4: the permeate-composition iteration is a deterministic dynamical system on one float.  A
harness-side seam records the exact orbit.  Violation = the orbit is provably periodic (a float
state revisited at distance >= 2) AND the call is still iterating after B = 10^6 driving-force
evaluations (memoised evaluation makes that affordable).  An orbit that exhausts B without any revisit
is reported under a separate key, under the same stated reading of "a bounded number" (B = 10^6).
"""
import glob
import json
import math
import os

from .. import core, solver, traces, universe as U
from . import spaces

ID = "C10"
B = 10 ** 6
_CONFIRMED = {"n": 0}
STOP_AFTER = 3


def classify(out):
    if out["status"] == "ok":
        return "converged"
    if out["status"] == "raise":
        if out["period"] is not None:
            return "periodic-then-raised:" + type(out["exc"]).__name__
        return "raised:" + type(out["exc"]).__name__
    if out["status"] == "lasso":
        return "periodic-and-running"
    return "aperiodic-and-running"


def judge(case):
    if _CONFIRMED["n"] >= STOP_AFTER:
        return core.result("skipped-after-%d-confirmed-violations" % STOP_AFTER, nontrivial=False, skipped=1)
    mix = U.get_mixture(case["mixture"])
    pv = solver.make_pv(mix)
    comp = U.composition(case["x"], "weight", mix)
    out = solver.solve(pv, case["T"], comp, case["P"], tuple(case["mode"]) if case["mode"] != "vac" else "vac",
                       case["precision"], case["model"], budget=B)
    cls = classify(out)
    v = []
    if out["status"] == "lasso":
        _CONFIRMED["n"] += 1
        v.append(core.viol("C10/periodic_and_running", "flux calculation cycles with period %d (entered at evaluation %d) and is still iterating after %d evaluations" % (
            out["period"], out["entry"], B), period=out["period"], entry=out["entry"]))
    elif out["status"] == "budget":
        # no float state was revisited, yet B evaluations (10x the slowest orbit that is allowed to exist on this tree)
        # did not end the call: under this harness's stated reading of "a bounded number" that is a violation too
        _CONFIRMED["n"] += 1
        v.append(core.viol("C10/still_running_after_budget", "flux calculation is still iterating after %d driving-force evaluations (no exact period detected)" % B))
    if out["period"] is not None or out["status"] in ("lasso", "budget") or out["calls"] > 20000:
        # remember the dangerous state: every other entry point is driven through it afterwards (see entry_point_space)
        with open("/dev/shm/c10_dangerous_%d_%d.jsonl" % (os.getppid(), os.getpid()), "a") as f:
            f.write(json.dumps(core.jsonable(case)) + "\n")
    return core.result(cls, nontrivial=True, digest=core.digest_of([cls.split(":")[0], core.fhex(out["fluxes"][0]) if out["status"] == "ok" else None, core.fhex(out["fluxes"][1]) if out["status"] == "ok" else None]),
                       viol=v, states=min(out["calls"], 10 ** 9), transitions=max(out["calls"] - 1, 0), traces=1,
                       max_calls_converged=out["calls"] if out["status"] == "ok" else None,
                       periodic=1 if out["period"] is not None else 0,
                       sample={"calls": out["calls"], "class": cls})


def marginal_pressure(mix, model, t, x, P):
    """harvesting only (no verdict depends on it): the permeate pressure at which the permeate-composition map, a linear
    fractional map of y in pressure mode, has slope -1 at its fixed point and therefore is an involution - every start value
    lies on a neutral 2-cycle.  Found with the library's own one-step function by bisection on the sign of
    (G(G(y0)) - y0) relative to (G(y0) - y0), y0 = the library's start value.  Returns the bracketing pair of floats."""
    mem = U.make_membrane(mix, P[0], P[1], t_ref=t, ea1=25000.0, ea2=60000.0)
    pv = U.Pervaporation(membrane=mem, mixture=mix)
    comp = U.Composition(p=x, type="weight")
    p1, p2 = U.Permeance(value=P[0]), U.Permeance(value=P[1])
    pf = U.pyvaporation.get_partial_pressures(t, mix, comp, model)
    j0 = (P[0] * float(pf[0]), P[1] * float(pf[1]))
    if not (j0[0] + j0[1] > 0 and math.isfinite(j0[0] + j0[1])):
        return None
    y0 = j0[0] / (j0[0] + j0[1])
    ptot = float(pf[0]) + float(pf[1])

    def G(y, p):
        j = pv.get_partial_fluxes_from_permeate_composition(first_component_permeance=p1, second_component_permeance=p2, permeate_composition=U.Composition(p=y, type="weight"),
                                                            feed_composition=comp, feed_temperature=t, permeate_pressure=p, calculation_type=model)
        return float(j[0]) / (float(j[0]) + float(j[1]))

    def h(p):
        try:
            y1 = G(y0, p)
            if not (0 <= y1 <= 1) or y1 == y0:
                return None
            y2 = G(y1, p)
        except Exception:  # noqa: BLE001
            return None
        return (y2 - y0) * (1 if y1 > y0 else -1)

    prev = None
    for k in range(1, 200):
        p = ptot * k / 200
        val = h(p)
        if val is None:
            prev = None
            continue
        if prev is not None and prev[1] > 0 and val <= 0:
            lo, hi = prev[0], p
            for _ in range(90):
                mid = 0.5 * (lo + hi)
                if mid == lo or mid == hi:
                    break
                vm = h(mid)
                if vm is None:
                    return None
                if vm > 0:
                    lo = mid
                else:
                    hi = mid
            return lo, hi
        prev = (p, val)
    return None


def judge_marginal(case):
    """pressure mode at (and a few ulps / 1e-9 / 1e-6 beside) the pressure where the iteration is a neutral 2-cycle."""
    if _CONFIRMED["n"] >= STOP_AFTER:
        return core.result("skipped-after-%d-confirmed-violations" % STOP_AFTER, nontrivial=False, skipped=1)
    mix = U.get_mixture(case["mixture"])
    br = marginal_pressure(mix, case["model"], case["T"], case["x"], case["P"])
    if br is None:
        return core.result("no-marginal-pressure", nontrivial=False)
    lo, hi = br
    p = {"lo": lo, "hi": hi, "lo-": lo * (1 - 1e-9), "hi+": hi * (1 + 1e-9), "lo--": lo * (1 - 1e-6), "lo-3ulp": lo * (1 - 3 * 2.2e-16)}[case["where"]]
    sub = {k: case[k] for k in ("mixture", "model", "T", "x", "P", "precision")}
    sub["mode"] = ("p", p)
    r = judge(sub)
    r["outcome"] = "marginal:" + r["outcome"]
    return r


def judge_process(case):
    if _CONFIRMED["n"] >= STOP_AFTER:
        return core.result("skipped-after-%d-confirmed-violations" % STOP_AFTER, nontrivial=False, skipped=1)
    setup = traces.Setup(case)
    setup.pv = solver.ObservedPV(membrane=setup.membrane, mixture=setup.mixture).observe(budget=B)
    try:
        st, pm = setup.run()
    except solver.Lasso as e:
        _CONFIRMED["n"] += 1
        return core.result("periodic-and-running", viol=[core.viol("C10/process_hangs/" + setup.kind, "a step of the process model never finishes: %s" % e)], traces=1)
    except solver.Budget as e:
        _CONFIRMED["n"] += 1
        return core.result("aperiodic-and-running", viol=[core.viol("C10/process_hangs/" + setup.kind, "a step of the process model is still iterating after the evaluation budget: %s" % e)], traces=1)
    return core.result("returned" if st == "ok" else "raised:" + type(pm).__name__, digest=core.digest_of([case, st]), traces=1,
                       states=case["steps"], transitions=case["steps"])


def judge_drift(case):
    """a many-step process run that STARTS beside a dangerous state and drifts through it (the feed composition moves by
    about 0.004 per step): every step must finish, whatever the previous steps left behind."""
    if _CONFIRMED["n"] >= STOP_AFTER:
        return core.result("skipped-after-%d-confirmed-violations" % STOP_AFTER, nontrivial=False, skipped=1)
    st8 = case["state"]
    mix = U.get_mixture(st8["mixture"])
    t, P, model, prec = st8["T"], st8["P"], st8["model"], st8["precision"]
    mode = tuple(st8["mode"]) if st8["mode"] != "vac" else "vac"
    kw = U.permeate_kwargs(mode, t)
    x0 = min(max(st8["x"] + case["offset"], 0.01), 0.99)
    mem = U.make_membrane(mix, P[0], P[1], t_ref=t, ea1=25000.0, ea2=60000.0)
    pv = solver.ObservedPV(membrane=mem, mixture=mix).observe(budget=B)
    comp = U.Composition(p=x0, type="weight")
    # size the area so that the feed fraction moves by ~0.004 per step (step-0 fluxes observed on a probe call)
    stp, j = core.call(pv.calculate_partial_fluxes, feed_temperature=t, composition=comp, precision=prec, calculation_type=model, **kw)
    if stp != "ok":
        if isinstance(j, (solver.Lasso, solver.Budget)):
            _CONFIRMED["n"] += 1
            return core.result("still-running", viol=[core.viol("C10/periodic_and_running", "probe flux calculation does not finish: %s" % j, state=st8)], traces=1)
        return core.result("probe-raised", nontrivial=False)
    rate = abs(float(j[0]) - x0 * (float(j[0]) + float(j[1])))
    if not (rate > 0 and math.isfinite(rate)):
        return core.result("no-drift", nontrivial=False)
    amount, dt = 10.0, 0.1
    area = 0.004 * amount / (rate * dt)
    cond = U.Conditions(membrane_area=area, initial_feed_temperature=t, initial_feed_amount=amount, initial_feed_composition=comp,
                        permeate_temperature=kw.get("permeate_temperature"), permeate_pressure=kw.get("permeate_pressure"))
    f = pv.ideal_isothermal_process if case["kind"] == "ideal_iso" else pv.ideal_non_isothermal_process
    st, r = core.call(f, number_of_steps=case["steps"], delta_hours=dt, conditions=cond, precision=prec, calculation_type=model)
    if st == "raise" and isinstance(r, (solver.Lasso, solver.Budget)):
        _CONFIRMED["n"] += 1
        return core.result("still-running", viol=[core.viol("C10/process_hangs/" + case["kind"], "a %d-step run drifting through a state where the flux iteration cycles does not finish: %s" % (case["steps"], r), state=st8, x0=x0)], traces=1)
    return core.result("returned" if st == "ok" else "raised:" + type(r).__name__, digest=core.digest_of(case), traces=1, states=case["steps"], transitions=case["steps"])


ENTRY_POINTS = ["ideal_iso", "ideal_noniso", "nonideal_iso", "nonideal_noniso", "ideal_curve", "nonideal_curve", "permeate_composition", "separation_factor", "solver_again_on_same_object"]


def judge_entry_point(case):
    """drive one public entry point through a state at which the flux iteration is known to cycle / crawl."""
    if _CONFIRMED["n"] >= STOP_AFTER:
        return core.result("skipped-after-%d-confirmed-violations" % STOP_AFTER, nontrivial=False, skipped=1)
    st8 = case["state"]
    mix = U.get_mixture(st8["mixture"])
    t, x, P, model, prec = st8["T"], st8["x"], st8["P"], st8["model"], st8["precision"]
    mode = tuple(st8["mode"]) if st8["mode"] != "vac" else "vac"
    kw = U.permeate_kwargs(mode, t)
    ep = case["ep"]
    cs = U.make_curve_set(mix if mix.nrtl_params is not None else U.get_mixture("H2O_EtOH"), law="lawA", temps=(t,)) if ep.startswith("nonideal") else None
    mem = U.make_membrane(mix, P[0], P[1], t_ref=t, ea1=25000.0, ea2=60000.0, curve_sets=[cs] if cs else None)
    pv = solver.ObservedPV(membrane=mem, mixture=mix).observe(budget=B)
    comp = U.Composition(p=x, type="weight")
    cond = U.Conditions(membrane_area=1e-6, initial_feed_temperature=t, initial_feed_amount=50.0, initial_feed_composition=comp,
                        permeate_temperature=kw.get("permeate_temperature"), permeate_pressure=kw.get("permeate_pressure"))
    perms = (U.Permeance(value=P[0]), U.Permeance(value=P[1]))
    try:
        if ep == "ideal_iso":
            st, r = core.call(pv.ideal_isothermal_process, number_of_steps=2, delta_hours=0.1, conditions=cond, precision=prec, calculation_type=model)
        elif ep == "ideal_noniso":
            st, r = core.call(pv.ideal_non_isothermal_process, number_of_steps=2, delta_hours=0.1, conditions=cond, precision=prec, calculation_type=model)
        elif ep == "nonideal_iso":
            st, r = core.call(pv.non_ideal_isothermal_process, conditions=cond, diffusion_curve_set=cs, number_of_steps=2, delta_hours=0.1, precision=prec,
                              calculation_type=model, initial_permeances=perms)
        elif ep == "nonideal_noniso":
            st, r = core.call(pv.non_ideal_non_isothermal_process, conditions=cond, diffusion_curve_set=cs, number_of_steps=2, delta_hours=0.1, precision=prec,
                              calculation_type=model, initial_permeances=perms)
        elif ep == "ideal_curve":
            st, r = core.call(pv.ideal_diffusion_curve, feed_temperature=t, compositions=[comp], precision=prec, calculation_type=model, **kw)
        elif ep == "nonideal_curve":
            st, r = core.call(pv.non_ideal_diffusion_curve, diffusion_curve_set=cs, feed_temperature=t, initial_feed_composition=comp, delta_composition=1e-9,
                              number_of_steps=1, initial_permeances=perms, precision=prec, calculation_type=model, **kw)
        elif ep == "solver_again_on_same_object":
            # history: the very object has just been through a calculation that did not converge (it raised, or was bounded); the same
            # question, then a neighbouring one, asked again on that object must still finish
            for rep_ in range(3):
                pv.observe(budget=B)
                st, r = core.call(pv.calculate_partial_fluxes, feed_temperature=t, composition=U.Composition(p=x if rep_ < 2 else min(x * 1.0001, 1.0), type="weight"),
                                  precision=prec, first_component_permeance=perms[0], second_component_permeance=perms[1], calculation_type=model, **kw)
                if st == "raise" and isinstance(r, (solver.Lasso, solver.Budget)):
                    break
        elif ep == "permeate_composition":
            st, r = core.call(pv.calculate_permeate_composition, feed_temperature=t, composition=comp, precision=prec, calculation_type=model, **kw)
        else:
            st, r = core.call(pv.calculate_separation_factor, feed_temperature=t, composition=comp, precision=prec, calculation_type=model, **kw)
    except (solver.Lasso, solver.Budget) as e:  # core.call lets nothing through, kept for clarity
        st, r = "raise", e
    if st == "raise" and isinstance(r, (solver.Lasso, solver.Budget)):
        _CONFIRMED["n"] += 1
        return core.result("still-running", viol=[core.viol("C10/entry_point_hangs/" + ep, "%s does not finish at a state where the flux iteration cycles: %s" % (ep, r), state=st8)], traces=1)
    return core.result("returned" if st == "ok" else "raised:" + type(r).__name__, digest=core.digest_of(case), traces=1, states=1, transitions=1)


def flux_space(tier, seed):
    q = tier == "quick"
    alph = {
        "mixture": ["H2O_EtOH", "H2O_iPOH", "MeOH_DMC", "MeOH_Toluene", "S1", "S2"] if q else list(U.ALL_MIXTURES),
        "model": ["NRTL", "UNIQUAC"],
        "mode": [("T", -60.0), ("T", -20.0), ("T", -10.0), ("T", -5.0), ("T", -2.0), ("T", -1.0), ("T", 0.0),
                 ("p", 0.5), ("p", 5.0), ("p", 100.0)] + ([] if q else ["vac", ("T", 120.0), ("T", -40.0), ("T", -0.5), ("p", 30.0)]),
        "P": [(1.0, 1e-6), (1e-2, 1e-4), (1e-3, 1e-3), (1e-4, 1e-2), (1e-6, 1.0)] if q else
             [(1.0, 1e-6), (1e-1, 1e-5), (1e-2, 1e-4), (3e-3, 1e-3), (1e-3, 1e-3), (1e-3, 3e-3), (1e-4, 1e-2), (1e-5, 1e-1), (1e-6, 1.0)],
        "x": core.lat([0.02, 0.1, 0.3, 0.5, 0.7, 0.9, 0.98], seed) if q else
             core.lat([0.01, 0.02, 0.05, 0.1, 0.2, 0.3, 0.4, 0.5, 0.6, 0.7, 0.8, 0.9, 0.95, 0.98, 0.99], seed),
        "T": core.lat([313.15, 353.15], seed) if q else core.lat([273.15, 293.15, 313.15, 333.15, 353.15, 373.15, 400.0], seed),
        "precision": [5e-5, 1e-8, 1e-2, 0.1] if q else [1e-3, 5e-5, 1e-8, 1e-2, 0.03, 0.1],  # incl. coarse ones, of the size of the cycles' amplitudes
    }
    return core.Space("flux_orbits", alph, lambda c: U.has_model(U.get_mixture(c["mixture"]), c["model"]))


def process_space(tier, seed):
    q = tier == "quick"
    alph = {
        "kind": ["ideal_iso", "ideal_noniso"],
        "mixture": ["H2O_EtOH", "MeOH_DMC", "MeOH_Toluene"] if q else ["H2O_EtOH", "H2O_iPOH", "MeOH_DMC", "MeOH_Toluene", "S1", "S2"],
        "model": ["NRTL", "UNIQUAC"],
        "mode": [("T", -5.0), ("T", -1.0), ("T", 0.0)],
        "prog": ["none"],
        "area": [0.05], "amount": [50.0], "dt": [0.5], "steps": [3],
        "x0": core.lat([0.1, 0.5, 0.9], seed),
        "basis": ["weight"],
        "T": core.lat([313.15, 353.15], seed),
        "P": [(1e-2, 1e-4), (1e-4, 1e-2)] if q else [(1.0, 1e-6), (1e-2, 1e-4), (1e-3, 1e-3), (1e-4, 1e-2), (1e-6, 1.0)],
    }
    return core.Space("process_near_equilibrium", alph, lambda c: U.has_model(U.get_mixture(c["mixture"]), c["model"]))


def main(tier, seed):
    rep = core.Report(
        ID, "model_checking", tier, seed,
        rule="every element of the finite flux lattice (dense near feed/permeate equilibrium) is one observed flux calculation; "
             "its exact float orbit is the explored trace (states = driving-force evaluations); non-trivial = decided "
             "(converged, raised, or periodic); distinct = distinct (class, evaluations, flux bits)",
        assumptions=["B = 10^6 driving-force evaluations is this harness's reading of 'a bounded number'",
                     "once an exact float state is revisited the driving-force function is memoised (same input, constant "
                     "other arguments -> same output); the real loop, exit test and counters still run every iteration",
                     "an orbit that neither converges, raises nor revisits a float within B evaluations is reported as a violation under the same reading of B (on this tree the library's own bound is 1e5, so B is never reached)"],
        technique="lasso detection on the exact float orbit of the fixed-point iteration (explicit-state liveness), exhaustive over a finite lattice")
    for f in glob.glob("/dev/shm/c10_dangerous_%d_*.jsonl" % os.getpid()):
        os.remove(f)
    m = core.run_space(rep, flux_space(tier, seed), judge)
    core.run_space(rep, process_space(tier, seed), judge_process)
    q = tier == "quick"
    marg = core.Space("pressure_mode_neutral_cycles", {
        "mixture": ["H2O_EtOH", "S2"] if q else ["H2O_EtOH", "MeOH_DMC", "MeOH_Toluene", "S2"], "model": ["NRTL", "UNIQUAC"],
        "T": core.lat([313.15, 333.15], seed)[:1] if q else core.lat([313.15, 333.15], seed), "x": core.lat([0.2, 0.5], seed) if q else core.lat([0.2, 0.5, 0.8], seed),
        "P": [(1e-2, 1e-3), (1e-4, 1e-2)] if q else [(1e-2, 1e-3), (1e-4, 1e-2), (1e-2, 1e-4)], "precision": [5e-5] if q else [5e-5, 1e-8],
        "where": ["lo", "hi", "lo-"] if q else ["lo", "hi", "lo-", "hi+", "lo--", "lo-3ulp"]},
        lambda c: U.has_model(U.get_mixture(c["mixture"]), c["model"]))
    core.run_space(rep, marg, judge_marginal, chunk=1, determinism_probe=0)
    dangerous = []
    for f in sorted(glob.glob("/dev/shm/c10_dangerous_%d_*.jsonl" % os.getpid())):
        dangerous += [json.loads(line) for line in open(f)]
        os.remove(f)
    dangerous.sort(key=lambda c: json.dumps(c, sort_keys=True))
    rep.note("dangerous_states_found", len(dangerous))
    cap = 40 if tier == "quick" else 400
    if len(dangerous) > cap:
        dangerous = dangerous[::max(1, len(dangerous) // cap)][:cap]
        rep.note("dangerous_states_driven_through_entry_points", "%d (every %d-th of those found)" % (len(dangerous), max(1, len(dangerous) // cap)))
    if dangerous:
        eps = core.ListSpace("entry_points_at_dangerous_states", [{"ep": ep, "state": d} for d in dangerous for ep in ENTRY_POINTS],
                             note="states of the flux lattice at which the iteration cycles or needs > 20000 evaluations, driven through 8 public entry points")
        core.run_space(rep, eps, judge_entry_point, chunk=1, determinism_probe=0)
        fine = [d for d in dangerous if d["precision"] <= 1e-3][: (12 if tier == "quick" else 80)]
        drift = core.ListSpace("drift_through_dangerous_states", [{"state": d, "kind": k, "offset": o, "steps": 30} for d in fine for k in ("ideal_iso", "ideal_noniso")
                                                                 for o in (-0.06, -0.02, 0.02, 0.06)],
                               note="30-step ideal process runs started 0.02 / 0.06 beside a dangerous state, area sized for a drift of 0.004 per step")
        core.run_space(rep, drift, judge_drift, chunk=1, determinism_probe=0)
    per = sum(v for k, v in m["outcomes"].items() if k.startswith("periodic"))
    rep.note("periodic_orbits_in_flux_lattice", per)
    rep.note("aperiodic_and_running", m["outcomes"].get("aperiodic-and-running", 0))
    if any(k.startswith("skipped") for k in m["outcomes"]):
        rep.cap("exploration of a shard stopped after %d confirmed violations" % STOP_AFTER)
    return rep.finish()


def replay(body):
    fn = judge_marginal if "where" in body["case"] else judge_drift if "offset" in body["case"] else (judge_entry_point if "ep" in body["case"] else (judge_process if "kind" in body["case"] else judge))
    r1 = fn(body["case"])
    _CONFIRMED["n"] = 0
    r2 = fn(body["case"])
    assert r1["outcome"] == r2["outcome"], "replay is not deterministic"
    for v in r1["viol"]:
        print("violation key=%s: %s" % (v["key"], v["msg"]))
    print("replayed: outcome=%s violations=%d" % (r1["outcome"], len(r1["viol"])))
    return 1 if r1["viol"] else 0
