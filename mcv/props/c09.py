"""C09 - flux -> permeance inversion of a diffusion curve undoes the flux calculation.

E1: mixture x permeate mode x permeance pair x composition x temperature x unit.  Forward: the
real solver (through ideal_diffusion_curve, precision 1e-12) computes fluxes from supplied
permeances; inverse: the curve's own `permeances`.  Also permeances -> fluxes -> permeances through
DiffusionCurve itself, and unit normalisation.  Pressure mode with p > 0 carries known finding K2:
the solver multiplies the permeate pressure by MASS fractions, the curve inversion by MOLE
fractions; suppressed only when both sides of that signature are confirmed on the very case.
"""
import math
from fractions import Fraction

from .. import core, solver, universe as U

ID = "C09"
K2 = "K2/pressure_mode_mass_vs_mole_fractions"
KG = "kg/(m2*h*kPa)"
TOL = 1e-6


def to_unit(value_kg, unit, comp):
    return U.exact_permeance(value_kg, unit, comp.molecular_weight)


def curve_class_roundtrip(mix, t, comp, P, unit, comps):
    """permeances -> fluxes -> permeances through DiffusionCurve itself (vacuum), in the stated unit; unit normalisation."""
    v = []
    pf = U.pyvaporation.get_partial_pressures(t, mix, comp)
    pf = (float(pf[0]), float(pf[1]))
    # permeances -> fluxes -> permeances through the curve class itself (vacuum), in every unit
    pin = (to_unit(P[0], unit, comps[0]), to_unit(P[1], unit, comps[1]))
    st, c1 = core.call(U.DiffusionCurve, mixture=mix, membrane_name="M", feed_temperature=t, feed_compositions=[comp], permeances=[pin])
    if st != "ok":
        v.append(core.viol("C09/curve_from_permeances_raises", "%r" % (c1,)))
    else:
        q = c1.permeances[0]
        if q[0].units != KG or q[1].units != KG:
            v.append(core.viol("C09/units", "curve built from %s permeances exposes them in %r" % (unit, q[0].units)))
        elif not all(core.close(float(q[i].value), P[i], 1e-11) for i in (0, 1)):
            v.append(core.viol("C09/unit_normalisation", "permeances %r supplied in %s are exposed as %r" % (tuple(P), unit, (q[0].value, q[1].value))))
        f = c1.partial_fluxes[0]
        if not all(core.close(float(f[i]), float(q[i].value) * pf[i], core.ULP) for i in (0, 1)):
            v.append(core.viol("C09/fluxes_from_permeances", "fluxes %r, permeance x feed partial pressure = %r" % (f, (q[0].value * pf[0], q[1].value * pf[1]))))
        st, c2 = core.call(U.DiffusionCurve, mixture=mix, membrane_name="M", feed_temperature=t, feed_compositions=[comp],
                           partial_fluxes=[(float(f[0]), float(f[1]))])
        if st != "ok":
            v.append(core.viol("C09/curve_from_fluxes_raises", "%r" % (c2,)))
        elif not all(core.close(float(c2.permeances[0][i].value), float(q[i].value), core.ULP) for i in (0, 1)):
            v.append(core.viol("C09/reinversion", "re-inverting the fluxes gives %r, original %r" % (
                (c2.permeances[0][0].value, c2.permeances[0][1].value), (q[0].value, q[1].value))))
        # a permeate condition stated alongside permeances does not change what "built from permeances" means
        for kwp in ({"permeate_temperature": t - 25.0}, {"permeate_pressure": 0.7}):
            st, c4 = core.call(U.DiffusionCurve, mixture=mix, membrane_name="M", feed_temperature=t, feed_compositions=[comp], permeances=[pin], **kwp)
            if st == "ok" and not all(core.close(float(c4.partial_fluxes[0][i]), P[i] * pf[i], 1e-11) for i in (0, 1)):
                v.append(core.viol("C09/fluxes_from_permeances", "curve built from permeances with %r reports fluxes %r, permeance x feed partial pressure = %r" % (
                    kwp, c4.partial_fluxes[0], (P[0] * pf[0], P[1] * pf[1]))))
                break
        # both supplied: units still normalised
        st, c3 = core.call(U.DiffusionCurve, mixture=mix, membrane_name="M", feed_temperature=t, feed_compositions=[comp], permeances=[pin],
                           partial_fluxes=[(float(f[0]), float(f[1]))])
        if st == "ok" and any(c3.permeances[0][i].units != KG or not core.close(float(c3.permeances[0][i].value), P[i], 1e-11) for i in (0, 1)):
            v.append(core.viol("C09/unit_normalisation", "curve built from fluxes and %s permeances %r exposes %r %s / %r %s" % (
                unit, tuple(P), c3.permeances[0][0].value, c3.permeances[0][0].units, c3.permeances[0][1].value, c3.permeances[0][1].units)))
    return v


def judge(case):
    mix = U.get_mixture(case["mixture"])
    t, x, P, unit = case["T"], case["x"], case["P"], case["unit"]
    mode = tuple(case["mode"]) if case["mode"] != "vac" else "vac"
    kw = U.permeate_kwargs(mode, t)
    comp = U.composition(x, case.get("basis", "weight"), mix)
    comps = (mix.first_component, mix.second_component)
    v = curve_class_roundtrip(mix, t, comp, P, unit, comps) if mode == "vac" or case.get("always_roundtrip") else []
    if mode != "vac":
        pass  # the class-level round trip does not depend on the permeate mode: judged once per (mixture, T, x, P, unit)
    mem = U.make_membrane(mix, P[0], P[1], t_ref=t, ea1=25000.0, ea2=60000.0, units=unit)
    pv = solver.ObservedPV(membrane=mem, mixture=mix).observe(budget=300000)
    try:
        st, curve = core.call(pv.ideal_diffusion_curve, feed_temperature=t, compositions=[comp], precision=1e-12, **kw)
    except (solver.Lasso, solver.Budget):
        return core.result("not-judged:no-convergence", nontrivial=bool(v), viol=v)
    if st != "ok":
        # the curve is the solver's fluxes plus the inversion: when the solver alone returns positive finite fluxes for this very
        # state, a raising curve means the inversion refused a state it has to report (e.g. a stated pressure of exactly 0)
        pv2 = solver.ObservedPV(membrane=mem, mixture=mix).observe(budget=300000)
        st2, j2 = core.call(pv2.calculate_partial_fluxes, feed_temperature=t, composition=comp, precision=1e-12, **kw)
        if st2 == "ok" and all(math.isfinite(float(j)) and float(j) > 0 for j in j2):
            v.append(core.viol("C09/curve_raises_where_solver_returns/" + (mode if mode == "vac" else mode[0]),
                               "the solver returns fluxes %r for this state but the ideal curve (solver + flux -> permeance inversion) raises %r" % (
                                   (float(j2[0]), float(j2[1])), curve)))
            return core.result("curve-raised", viol=v)
        return core.result("not-judged:raised", nontrivial=bool(v), viol=v)
    J = (float(curve.partial_fluxes[0][0]), float(curve.partial_fluxes[0][1]))
    rec = curve.permeances[0]
    if rec[0].units != KG or rec[1].units != KG:
        v.append(core.viol("C09/units", "curve exposes permeances in %r" % (rec[0].units,)))
    R = (float(rec[0].value), float(rec[1].value))
    pf = U.pyvaporation.get_partial_pressures(t, mix, comp)
    pf = (float(pf[0]), float(pf[1]))
    ystar = float(pv._last_y.p)
    yJ = J[0] / (J[0] + J[1])
    # conditioning: the inversion divides by the driving force
    if mode == "vac":
        pp = (0.0, 0.0)
    elif mode[0] == "T":
        q = U.pyvaporation.get_partial_pressures(kw["permeate_temperature"], mix, U.Composition(p=yJ, type="weight"))
        pp = (float(q[0]), float(q[1]))
    else:
        pp = (mode[1] * ystar, mode[1] * (1 - ystar))
    drive = [abs(pf[i] - pp[i]) / max(abs(pf[i]), abs(pp[i]), 1e-300) for i in (0, 1)]
    if min(drive) < 1e-2 or not all(j > 0 and math.isfinite(j) for j in J):
        return core.result("not-judged:ill-conditioned", nontrivial=bool(v), viol=v)
    ok = all(core.close(R[i], P[i], TOL) for i in (0, 1))
    outcome = "inverted"
    if not ok:
        known = None
        if mode != "vac" and mode[0] == "p" and mode[1] > 0:
            # K2 signature, both sides on this very case
            m1, m2 = comps[0].molecular_weight, comps[1].molecular_weight
            side_solver = all(abs(J[i] - P[i] * (pf[i] - mode[1] * w)) <= 1e-9 * P[i] * (abs(pf[i]) + mode[1])
                              for i, w in ((0, ystar), (1, 1 - ystar)))
            nJ = U.exact_to_molar(yJ, m1, m2)
            def curve_value(i, n):  # what mole-fraction inversion yields; Permeance clamps negatives to 0
                den = pf[i] - mode[1] * n
                val = J[i] / den if den != 0 else math.inf
                return val if val >= 0 else 0.0
            side_curve = all(core.close(R[i], curve_value(i, n), 1e-9) for i, n in ((0, nJ), (1, 1 - nJ)))
            if side_solver and side_curve:
                known = K2
                outcome = "K2"
        v.append(core.viol("C09/inversion/" + (mode if mode == "vac" else mode[0]),
                           "supplied permeances %r, curve reports %r back (mode %r)" % (tuple(P), R, mode), known=known,
                           fluxes=J, y_star=ystar))
    return core.result(outcome, digest=core.digest_of([core.fhex(R[0]), core.fhex(R[1])]), viol=v,
                       max_rel_inversion_error=max(core.relerr(R[i], P[i]) for i in (0, 1)) if ok else None,
                       sample={"P": P, "recovered": R, "J": J})


def judge_mixed_units(case):
    """a multi-point curve whose permeances are supplied in a different unit per point and per component."""
    mix = U.get_mixture(case["mixture"])
    t = case["T"]
    comps = (mix.first_component, mix.second_component)
    xs = case["xs"]
    base = [(3.1e-2 * (1 + 0.4 * i), 4.7e-4 * (1 + 0.7 * i)) for i in range(len(xs))]
    units = case["units"]  # flat list: point-major, component-minor
    perms = [tuple(to_unit(base[i][j], units[2 * i + j], comps[j]) for j in (0, 1)) for i in range(len(xs))]
    fcomp = [U.Composition(p=x, type="weight") for x in xs]
    kwargs = {}
    if case["with_fluxes"]:
        kwargs["partial_fluxes"] = [(0.02 * (i + 1), 0.001 * (i + 1)) for i in range(len(xs))]
    st, c = core.call(U.DiffusionCurve, mixture=mix, membrane_name="M", feed_temperature=t, feed_compositions=fcomp, permeances=perms, **kwargs)
    if st != "ok":
        return core.result("raised", viol=[core.viol("C09/curve_from_permeances_raises", "%r" % (c,))])
    v = []
    for i in range(len(xs)):
        pf = U.pyvaporation.get_partial_pressures(t, mix, fcomp[i])
        for j in (0, 1):
            q = c.permeances[i][j]
            if q.units != KG or not core.close(float(q.value), base[i][j], 1e-11):
                v.append(core.viol("C09/unit_normalisation", "point %d component %d supplied as %r %s is exposed as %r %s (units per point/component: %r)" % (
                    i, j + 1, perms[i][j].value, units[2 * i + j], q.value, q.units, units)))
                break
            if not case["with_fluxes"] and not core.close(float(c.partial_fluxes[i][j]), base[i][j] * float(pf[j]), 1e-11):
                v.append(core.viol("C09/fluxes_from_permeances", "point %d component %d: flux %r, permeance x feed partial pressure = %r" % (
                    i, j + 1, c.partial_fluxes[i][j], base[i][j] * float(pf[j]))))
                break
        if v:
            break
    return core.result("normalised", digest=core.digest_of(case), viol=v)


def judge_equal_numbers(case):
    """both components carry the SAME number in the stated unit (so their kg/(m2 h kPa) values differ by the molar masses);
    several mixtures share the numbers within one worker process."""
    from fractions import Fraction
    v = []
    for mname in case["mixtures"]:
        mix = U.get_mixture(mname)
        comps = (mix.first_component, mix.second_component)
        num, unit, t = case["number"], case["unit"], case["T"]
        fcomp = [U.Composition(p=x, type="weight") for x in case["xs"]]
        st, c = core.call(U.DiffusionCurve, mixture=mix, membrane_name="M", feed_temperature=t, feed_compositions=fcomp,
                          permeances=[(U.Permeance(value=num, units=unit), U.Permeance(value=num * (1 + 0.5 * i), units=unit)) for i in range(len(fcomp))])
        if st != "ok":
            v.append(core.viol("C09/curve_from_permeances_raises", "%r" % (c,)))
            continue
        for i in range(len(fcomp)):
            for j in (0, 1):
                n_ = num if j == 0 else num * (1 + 0.5 * i)
                f_si = Fraction(1) if unit == "SI" else (Fraction("3.35e-10") if unit == "GPU" else 1 / (Fraction(comps[j].molecular_weight) * 3600))
                want = float(Fraction(n_) * f_si * Fraction(comps[j].molecular_weight) * 3600)
                q = c.permeances[i][j]
                if q.units != KG or not core.close(float(q.value), want, 1e-11):
                    v.append(core.viol("C09/unit_normalisation", "%s: %r %s for component %d is exposed as %r %s, exact %r" % (mname, n_, unit, j + 1, q.value, q.units, want)))
                    break
            if v:
                break
    return core.result("normalised", digest=core.digest_of(case), viol=v)


def judge_multi_point(case):
    """ideal curves over several feed points: point i of the curve must be the one-point curve at composition i (fluxes BIT, recovered
    permeances the membrane's); the number of points (2 included) must not matter."""
    mix = U.get_mixture(case["mixture"])
    t, P = case["T"], case["P"]
    mode = tuple(case["mode"]) if case["mode"] != "vac" else "vac"
    kw = U.permeate_kwargs(mode, t)
    mem = U.make_membrane(mix, P[0], P[1], t_ref=t, ea1=25000.0, ea2=60000.0, units=case["unit"])
    comps = [U.composition(x, case["basis"], mix) for x in case["xs"]]
    pv = solver.ObservedPV(membrane=mem, mixture=mix).observe(budget=300000)
    try:
        st, curve = core.call(pv.ideal_diffusion_curve, feed_temperature=t, compositions=comps, precision=1e-10, **kw)
        singles = [core.call(pv.ideal_diffusion_curve, feed_temperature=t, compositions=[U.composition(x, case["basis"], mix)], precision=1e-10, **kw) for x in case["xs"]]
    except (solver.Lasso, solver.Budget):
        return core.result("not-judged:no-convergence", nontrivial=False)
    if st != "ok" or any(s_[0] != "ok" for s_ in singles):
        if st != "ok" and all(s_[0] == "ok" for s_ in singles):
            return core.result("raised", viol=[core.viol("C09/multi_point_curve_raises", "every one-point curve returns but the %d-point curve raises %r" % (len(comps), curve))])
        return core.result("not-judged:raised", nontrivial=False)
    v = []
    if len(curve.partial_fluxes) != len(comps) or len(curve.permeances) != len(comps):
        v.append(core.viol("C09/multi_point_curve", "%d feed points, %d flux pairs, %d permeance pairs" % (len(comps), len(curve.partial_fluxes), len(curve.permeances))))
    else:
        for i, (st1, one) in enumerate(singles):
            a = tuple(float(z) for z in curve.partial_fluxes[i])
            b = tuple(float(z) for z in one.partial_fluxes[0])
            qa = tuple(float(z.value) for z in curve.permeances[i])
            qb = tuple(float(z.value) for z in one.permeances[0])
            if len(a) != 2 or [core.fhex(z) for z in a] != [core.fhex(z) for z in b] or [core.fhex(z) for z in qa] != [core.fhex(z) for z in qb]:
                v.append(core.viol("C09/multi_point_curve", "point %d of a %d-point ideal curve: fluxes %r permeances %r; the one-point curve at that composition: fluxes %r permeances %r" % (
                    i, len(comps), a, qa, b, qb)))
                break
            # re-inverting the reported fluxes through the curve class (vacuum / p = 0: the inverse is exact)
            if mode == "vac" or mode == ("p", 0.0):
                if not all(core.close(qa[j], P[j], TOL) for j in (0, 1)):
                    v.append(core.viol("C09/inversion/multi_point", "point %d: supplied permeances %r, curve reports %r" % (i, tuple(P), qa)))
                    break
        if not v:
            st2, c2 = core.call(U.DiffusionCurve, mixture=mix, membrane_name="M", feed_temperature=t, feed_compositions=comps,
                                partial_fluxes=[tuple(float(z) for z in f) for f in curve.partial_fluxes], **kw)
            if st2 == "ok":
                for i in range(len(comps)):
                    if [core.fhex(float(z.value)) for z in c2.permeances[i]] != [core.fhex(float(z.value)) for z in curve.permeances[i]]:
                        v.append(core.viol("C09/reinversion", "point %d of %d: a curve built from the reported fluxes exposes permeances %r, the ideal curve %r" % (
                            i, len(comps), tuple(float(z.value) for z in c2.permeances[i]), tuple(float(z.value) for z in curve.permeances[i]))))
                        break
            else:
                v.append(core.viol("C09/curve_from_fluxes_raises", "%r" % (c2,)))
    return core.result("multi-point", digest=core.digest_of([core.fhex(float(z)) for f in curve.partial_fluxes for z in f]), viol=v)


def judge_default_precision(case):
    """the library's DEFAULT precision, very selective membranes, a permeate temperature: the curve still reports the membrane's
    permeance of the major component to 1 % (the default precision limits the permeate composition to 5e-5, the driving force of the
    major component is well-conditioned)."""
    mix = U.get_mixture(case["mixture"])
    t, x, P = case["T"], case["x"], case["P"]
    mode = tuple(case["mode"])
    kw = U.permeate_kwargs(mode, t)
    comp = U.composition(x, "weight", mix)
    mem = U.make_membrane(mix, P[0], P[1], t_ref=t, ea1=25000.0, ea2=60000.0)
    pv = solver.ObservedPV(membrane=mem, mixture=mix).observe(budget=300000)
    try:
        st, curve = core.call(pv.ideal_diffusion_curve, feed_temperature=t, compositions=[comp], **kw)
    except (solver.Lasso, solver.Budget):
        return core.result("not-judged:no-convergence", nontrivial=False)
    if st != "ok":
        return core.result("not-judged:raised", nontrivial=False)
    J = (float(curve.partial_fluxes[0][0]), float(curve.partial_fluxes[0][1]))
    if not all(j > 0 and math.isfinite(j) for j in J):
        return core.result("not-judged:backflow", nontrivial=False)
    major = 0 if J[0] >= J[1] else 1
    yJ = J[0] / (J[0] + J[1])
    pf = U.pyvaporation.get_partial_pressures(t, mix, comp)
    q = U.pyvaporation.get_partial_pressures(kw["permeate_temperature"], mix, U.Composition(p=yJ, type="weight"))
    drive = abs(float(pf[major]) - float(q[major])) / max(abs(float(pf[major])), 1e-300)
    if drive < 0.2:
        return core.result("not-judged:ill-conditioned", nontrivial=False)
    R = float(curve.permeances[0][major].value)
    v = []
    if not core.close(R, P[major], 1e-2):
        v.append(core.viol("C09/inversion/default_precision", "default precision, permeances %r, mode %r: the curve reports %r for the major component (supplied %r)" % (tuple(P), mode, R, P[major])))
    return core.result("inverted", digest=core.digest_of([core.fhex(R)]), viol=v)


def judge_shared_objects(case):
    """the caller owns its Permeance objects: ONE object may serve both components of a pair, and the same objects may be handed to a
    second curve of another mixture; every curve exposes exact conversions and the caller's objects stay as they were."""
    v = []
    num, unit, t = case["number"], case["unit"], case["T"]
    shared = U.Permeance(value=num, units=unit)
    other = U.Permeance(value=num * 1.5, units=unit)
    for mname in case["mixtures"]:
        mix = U.get_mixture(mname)
        comps = (mix.first_component, mix.second_component)
        fcomp = [U.Composition(p=x, type="weight") for x in case["xs"]]
        pairs = [(shared, shared), (other, shared), (shared, other)][:len(fcomp)]
        st, c = core.call(U.DiffusionCurve, mixture=mix, membrane_name="M", feed_temperature=t, feed_compositions=fcomp, permeances=list(pairs))
        if st != "ok":
            v.append(core.viol("C09/curve_from_permeances_raises", "%r" % (c,)))
            continue
        for i in range(len(fcomp)):
            pf = U.pyvaporation.get_partial_pressures(t, mix, fcomp[i])
            for j in (0, 1):
                n_ = num if pairs[i][j] is shared else num * 1.5
                f_si = Fraction(1) if unit == "SI" else (Fraction("3.35e-10") if unit == "GPU" else 1 / (Fraction(comps[j].molecular_weight) * 3600))
                want = float(Fraction(n_) * f_si * Fraction(comps[j].molecular_weight) * 3600)
                q = c.permeances[i][j]
                if q.units != KG or not core.close(float(q.value), want, 1e-11):
                    v.append(core.viol("C09/unit_normalisation", "%s (caller re-uses its Permeance objects): %r %s for component %d at point %d is exposed as %r %s, exact %r" % (
                        mname, n_, unit, j + 1, i, q.value, q.units, want)))
                    break
                if not core.close(float(c.partial_fluxes[i][j]), want * float(pf[j]), 1e-11):
                    v.append(core.viol("C09/fluxes_from_permeances", "%s point %d component %d: flux %r, permeance x feed partial pressure = %r" % (
                        mname, i, j + 1, c.partial_fluxes[i][j], want * float(pf[j]))))
                    break
            if v:
                break
        if (shared.value, shared.units, other.value, other.units) != (num, unit, num * 1.5, unit):
            v.append(core.viol("C09/caller_permeance_changed", "after building a curve for %s the caller's Permeance objects read %r %s / %r %s (were %r / %r %s)" % (
                mname, shared.value, shared.units, other.value, other.units, num, num * 1.5, unit)))
        if v:
            break
    return core.result("normalised", digest=core.digest_of(case), viol=v)


def space(tier, seed):
    q = tier == "quick"
    alph = {
        "mixture": ["H2O_EtOH", "MeOH_DMC", "S2", "S5"] if q else list(U.ALL_MIXTURES),
        "mode": ["vac", ("T", 120.0), ("T", -60.0), ("T", -20.0), ("p", 0.0), ("p", 0.004), ("p", 0.5), ("p", 5.0)] +
                ([] if q else [("T", -5.0), ("p", 30.0), ("p", 100.0)]),
        "P": [(1e-2, 1e-4), (1e-3, 1e-3), (1e-6, 1.0), (1.0, 1e-6)] if q else
             [(a, b) for a in (1e-6, 1e-4, 1e-2, 1.0) for b in (1e-6, 1e-4, 1e-2, 1.0)],
        "x": core.lat([0.05, 0.3, 0.5, 0.9], seed) if q else core.lat([0.01, 0.05, 0.1, 0.3, 0.5, 0.7, 0.9, 0.95, 0.99], seed),
        "basis": ["weight", "molar"],
        "T": core.lat([293.15, 333.15, 373.15], seed) if q else core.lat([273.15, 293.15, 313.15, 333.15, 353.15, 373.15, 400.0], seed),
        "unit": [KG, "SI", "GPU"],
    }
    return core.Space("curve_inversion", alph, lambda c: U.get_mixture(c["mixture"]).nrtl_params is not None)


def main(tier, seed):
    rep = core.Report(
        ID, "exploration", tier, seed,
        rule="every element of the finite product is one forward flux calculation (real solver, precision 1e-12) and one "
             "inversion by the curve class, plus the permeance->flux->permeance round trip through the curve class in the "
             "stated unit; non-trivial = well-conditioned (driving force > 1% of the partial pressures) and judged; distinct = "
             "distinct recovered bit patterns",
        assumptions=["NRTL only (DiffusionCurve has no model parameter)", "recovered = supplied to 1e-6 relative (solver class)",
                     "cases whose driving force is < 1% of the partial pressures are counted, not judged"],
        technique="bounded exhaustive enumeration of a round trip (solver forward, curve inverse) with a two-sided known-finding signature")
    core.run_space(rep, space(tier, seed), judge)
    import itertools
    q = tier == "quick"
    ucomb = [list(u) for u in itertools.product([KG, "SI", "GPU"], repeat=4)]
    mixed = core.Space("mixed_unit_curves", {"mixture": ["H2O_EtOH", "S2"] if q else ["H2O_EtOH", "MeOH_Toluene", "S2", "S4"], "T": core.lat([313.15, 353.15], seed)[:1 if q else 2],
                                             "xs": [core.lat([0.2, 0.7], seed)], "units": ucomb, "with_fluxes": [False, True]})
    core.run_space(rep, mixed, judge_mixed_units)
    eq = core.ListSpace("equal_numbers_in_unit", [{"mixtures": ["H2O_EtOH", "MeOH_MTBE", "H2O_iPOH", "S2"], "number": n_, "unit": u_, "T": 333.15, "xs": [0.2, 0.7]}
                                                 for n_ in (6.29e-7, 2.5e-5, 3.0e2) for u_ in (KG, "SI", "GPU")])
    core.run_space(rep, eq, judge_equal_numbers, chunk=3)
    sh = core.ListSpace("shared_permeance_objects", [{"mixtures": ms_, "number": n_, "unit": u_, "T": 333.15, "xs": [0.2, 0.7, 0.45]}
                                                     for n_ in (6.29e-7, 3.0e2) for u_ in (KG, "SI", "GPU")
                                                     for ms_ in (["H2O_EtOH", "MeOH_MTBE", "S2"], ["S2", "H2O_iPOH", "H2O_EtOH"])])
    core.run_space(rep, sh, judge_shared_objects, chunk=2)
    mp = core.Space("multi_point_ideal_curves", {"mixture": ["H2O_EtOH", "S2"] if q else ["H2O_EtOH", "MeOH_DMC", "S2", "S5", "S6"],
                                                 "mode": ["vac", ("T", -40.0), ("p", 0.0), ("p", 0.5)], "P": [(1e-2, 1e-4), (1e-3, 2e-3)],
                                                 "xs": [core.lat(l_, seed) for l_ in ([0.3], [0.2, 0.7], [0.7, 0.2], [0.1, 0.5, 0.9], [0.15, 0.35, 0.6, 0.8], [0.1, 0.3, 0.5, 0.7, 0.9])],
                                                 "basis": ["weight", "molar"], "T": core.lat([333.15], seed), "unit": [KG, "SI"] if q else [KG, "SI", "GPU"]},
                    lambda c: U.get_mixture(c["mixture"]).nrtl_params is not None)
    core.run_space(rep, mp, judge_multi_point)
    dp = core.Space("default_precision_selective_membranes", {"mixture": ["H2O_EtOH", "S2"] if q else ["H2O_EtOH", "MeOH_DMC", "S2", "S5"], "mode": [("T", -60.0), ("T", -25.0)],
                                                               "P": [(0.5, 2e-6), (3e-6, 0.8), (1.0, 1e-6), (1e-2, 1e-4)], "x": core.lat([0.1, 0.5, 0.9], seed), "T": core.lat([313.15, 353.15], seed)},
                    lambda c: U.get_mixture(c["mixture"]).nrtl_params is not None)
    core.run_space(rep, dp, judge_default_precision)
    three = core.Space("mixed_unit_curves_3pt", {"mixture": ["H2O_EtOH"], "T": [333.15], "xs": [[0.1, 0.5, 0.9]],
                                                 "units": [list(u) for u in itertools.product([KG, "SI", "GPU"], repeat=6)] if not q else
                                                          [[a, a, b, b, c, c] for a in (KG, "SI", "GPU") for b in (KG, "SI", "GPU") for c in (KG, "SI", "GPU")],
                                                 "with_fluxes": [False]})
    core.run_space(rep, three, judge_mixed_units)
    return rep.finish()


def replay(body):
    fn = {"equal_numbers_in_unit": judge_equal_numbers, "shared_permeance_objects": judge_shared_objects, "multi_point_ideal_curves": judge_multi_point,
          "default_precision_selective_membranes": judge_default_precision}.get(body.get("space"))
    if fn is None:
        fn = judge_mixed_units if str(body.get("space", "")).startswith("mixed_unit") else judge
    r = fn(body["case"])
    for v in r["viol"]:
        print("violation key=%s%s: %s" % (v["key"], " [known %s]" % v["known"] if v["known"] else "", v["msg"]))
    print("replayed: outcome=%s violations=%d" % (r["outcome"], len(r["viol"])))
    return 1 if any(not v["known"] for v in r["viol"]) else 0
