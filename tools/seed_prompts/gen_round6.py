import os, json
here = os.path.dirname(os.path.abspath(__file__))
src = open(os.path.join(here, "gen_round5.py")).read()
ns = {"__file__": os.path.join(here, "gen_round5.py")}
code = src.split("for pid in more5:")[0]
exec(compile(code, "gen_round5_part", "exec"), ns)
tried, extra, tmpl, more, more5 = ns["tried"], ns["extra"], ns["tmpl"], ns["more"], ns["more5"]
tmpl = tmpl.replace("This is a FIFTH round", "This is a SIXTH round").replace("/tmp/w7_", "/tmp/w8_")
# round 6 also renders the property records (the sandbox's /tmp does not survive between sessions)
for line in open(os.path.join(here, "..", "..", "properties.jsonl")):
    p = json.loads(line)
    open('/tmp/prop_%s.txt' % p["id"], 'w').write(json.dumps(p, indent=1))
more6 = {
'C01': "mass update skipped when numpy.isclose says nothing changed; time grid built by accumulating rounded step lengths",
'C02': "iteration bound lowered with exhaustion turned into a silent break; convergence measured relative to the estimate",
'C03': "single-curve shortcut taken when the process temperature is within 0.5 K of the curve temperature; heat capacities evaluated at a temperature rounded to 0.1 K",
'C04': "NRTL ln gamma clipped to +-ln 1e3; UNIQUAC theta computed from q instead of q' for one component",
'C05': "activation energies clamped at 0 in the single-curve branch; facilitation factor rounded",
'C06': "a threshold keyed on the first component's feed pressure only; metrics computed from the first component's perspective with a guard on one side",
'C07': "helpers converting the caller's composition only when type == 'molar' by string comparison with a different spelling; hand-built curves with mixed bases",
'C08': "a per-object last-result cache keyed by floats without the mode; psi / separation factor computed from rounded compositions",
'C09': "inversion testing the permeate pressure for truthiness; permeances floored / clamped on one side",
'C10': "iteration counter advanced in one permeate mode only; counter reset under some condition; bound disabled via a forwarded None",
'C11': "a threshold in absolute kg / m2 / hours anywhere in the loops; rounding of the reported series",
'C12': "per-component memo of filtered experiments on the membrane; nearest experiment found on rounded temperatures",
'C13': "polynomial integrals 'simplified' for special coefficients; vapour-pressure derivative with a shortcut for special constants",
'C14': "molar mass rounded; factor table mutated; identity shortcut placement",
'C15': "fast paths near the ends / for close molar masses; validator tolerance",
'C16': "memo in find_best_fit handing out shallow copies; fit_vle skipping methods",
'C17': "feed-temperature series collapsed to one value when numpy.allclose; rounding of columns; path-keyed caches",
'C18': "one test of the final mass instead of a per-step guard; clipping of component masses; guards skipped for pure feeds or in the last step",
'C19': "early returns placed before the both-specified check; checks moved into per-point helpers so that empty curves skip them",
'C20': "numpy.seterr / attrs validator switch left changed; caller's Conditions edited (programme value at t = 0 written back); sorting a caller's list in place",
}
style = ("\n\nRound-6 emphasis: variant A should be HISTORY- or STATE-dependent where the property allows it (it manifests only on the second or later call on some object, after some other call in the same interpreter, after the caller edits or re-uses something, or through two cooperating edits at two different sites that each look harmless alone); variant B should be INPUT-dependent on an unusual but valid corner that none of the ideas listed above touches (a different function, branch, unit, basis, mode, kind, clause of the property than all of them). Prefer code paths that NONE of the listed ideas touched. Before writing a variant, make sure the ORIGINAL code really satisfies the property on your demonstration input (demo must exit 0 on the original code) - the repository already contains fixes for earlier defects, and two documented known defects (UNIQUAC gamma_2 asymmetry; permeate-pressure mode uses mass fractions in the solver and mole fractions in DiffusionCurve) do not count.")
for pid in more6:
    t = tried[pid] + "; " + more[pid] + "; " + more5.get(pid, "") + "; " + more6[pid]
    open('/tmp/seed_round6_%s.txt' % pid, 'w').write(tmpl.replace('@ID@', pid).replace('@TRIED@', t).replace('@EXTRA@', extra.get(pid, '') + style))
print('ok', len(more6))
