"""C05 - non-ideal models follow the fitted permeance functions they return.

E2 + E1 over curve sets x initial permeances x modelling temperature x mode x model kind:
(a) permeances[k] = fit_i(x[k or k-1], T[k]) * F_i with one constant F_i per run (one lag per run);
(b) F_i fixed by the supplied initial permeances (converted to kg/(m2 h kPa)), F_i = 1 if none;
(c) the returned fits are what the public find_best_fit produces from that component's permeances
    in the supplied curve set (measurements extracted by the harness itself); for a single curve:
    fit(x, T_curve) equals the public result at T_curve and fit(x, T)/fit(x, T_curve) is the
    Arrhenius factor of the membrane's activation energy for that component.
"""
import math

from .. import core, traces, universe as U
from . import spaces

ID = "C05"
OPT = U.pyvaporation.optimizer.optimizer
_PUBLIC_MEMO = {}


def public_fit(points, include_zero, component_index, n, m):
    """the public best-fit search on harness-extracted measurements (memoised by the exact data)."""
    key = (tuple((core.fhex(a), core.fhex(b), core.fhex(c)) for a, b, c in points), include_zero, component_index, n, m)
    if key not in _PUBLIC_MEMO:
        data = OPT.Measurements(data=[OPT.Measurement(x=a, t=b, p=c) for a, b, c in points])
        _PUBLIC_MEMO[key] = U.pyvaporation.find_best_fit(data=data, include_zero=include_zero, component_index=component_index, n=n, m=m)
    return _PUBLIC_MEMO[key]


def harness_measurements(curve_set, mix, comp_index):
    pts = []
    for c in curve_set.diffusion_curves:
        for i in range(len(c.feed_compositions)):
            pts.append((U.mass_fraction(c.feed_compositions[i], mix), float(c.feed_temperature), float(c.permeances[i][comp_index].value)))
    return pts


def same_function(f, g, xs, ts, tol):
    for x in xs:
        for t in ts:
            a, b = float(f(x, t)), float(g(x, t))
            if not core.close(a, b, tol, 1e-300):
                return (x, t, a, b)
    return None


def judge(case):
    kind = case["kind"]
    v = []
    if kind == "curve":
        return judge_curve(case)
    setup = traces.Setup(case)
    st, pm = setup.run()
    if st != "ok":
        return core.result("raised", nontrivial=False)
    tr = traces.extract(pm)
    fits = pm.permeance_fits
    if fits is None:
        return core.result("no-fits", viol=[core.viol("C05/no_fits_returned/" + kind, "non-ideal model returned no permeance fits")])
    mix = setup.mixture
    n = tr["n"]
    # (a) one factor per run, one lag per run
    ok_lag = None
    Fs = None
    for lag in ((0,) if kind == "nonideal_noniso" else (1, 0)):
        F = []
        good = True
        for i in (0, 1):
            f0 = float(fits[i](tr["x"][0], tr["T"][0]))
            Fi = tr["P"][0][i] / f0 if f0 != 0 else math.nan
            F.append(Fi)
            for k in range(n):
                xx = tr["x"][max(k - lag, 0)] if k > 0 else tr["x"][0]
                want = float(fits[i](xx, tr["T"][k])) * Fi
                want = want if want >= 0 else 0.0
                if not core.close(tr["P"][k][i], want, 1e-11, 1e-300):
                    good = False
                    break
            if not good:
                break
        if good:
            ok_lag, Fs = lag, F
            break
    if ok_lag is None:
        v.append(core.viol("C05/permeance_not_from_fit/" + kind, "reported permeances are not the returned fits evaluated at the step's feed state times a constant factor",
                           P=tr["P"][:4], x=tr["x"][:4], T=tr["T"][:4]))
    # (b) the factor
    if not v:
        if setup.init_perm is None:
            if not all(core.close(F, 1.0, 1e-11) for F in Fs):
                v.append(core.viol("C05/facilitation_factor/" + kind, "no initial permeances supplied but the run uses factors %r on its fits" % (Fs,)))
        else:
            sup = tuple(float(z) for z in setup.case["init_perm"]["values"])  # stated in kg/(m2 h kPa); the harness converted them exactly to the case's units
            if not all(core.close(tr["P"][0][i], sup[i], 1e-11) for i in (0, 1)):
                v.append(core.viol("C05/initial_permeance/" + kind, "step 0 uses permeances %r, supplied %r" % (tr["P"][0], sup)))
    # (c) the fits themselves
    if not v:
        v.extend(check_fits(setup.curve_set, mix, setup.membrane, fits, setup.fit_kwargs, kind, setup.t0))
    # the same Pervaporation / membrane / curve-set objects modelling the same run a second and third time (the single-curve
    # branch rescales its fit in place): the trace must not change
    if not v:
        for rep_i in (2, 3):
            st2, pm2 = setup.run()
            if st2 != "ok" or traces.trace_digest(traces.extract(pm2)) != traces.trace_digest(tr):
                v.append(core.viol("C05/depends_on_earlier_run/" + kind, "run %d of the same model on the same objects differs from run 1 (%s)" % (
                    rep_i, "raises %r" % (pm2,) if st2 != "ok" else "permeances %r vs %r" % ([p_[0].value for p_ in pm2.permeances][:3], [p_[0] for p_ in tr["P"]][:3]))))
                break
    # recycled caller objects: a decoy run first (another membrane state, other conditions), then every caller-owned object is set in
    # place to this case - the membrane's experiments included, so a remembered activation energy or factor shows
    if not v and case["mode"] == "vac":
        v5, _n5 = traces.check_recycled(case, tr, "C05/depends_on_earlier_run/" + kind)
        v.extend(v5)
    return core.result("judged", digest=traces.trace_digest(tr), viol=v, states=n, transitions=max(n - 1, 0), traces=1, lag=ok_lag or 0,
                       sample={"P": tr["P"][:3], "F": Fs})


def check_fits(curve_set, mix, membrane, fits, fit_kwargs, kind, t_model):
    v = []
    single = len(curve_set.diffusion_curves) == 1
    xs = [0.07, 0.33, 0.61, 0.88]
    for i, comp in ((0, mix.first_component), (1, mix.second_component)):
        pts = harness_measurements(curve_set, mix, i)
        n_i = fit_kwargs.get("n_first" if i == 0 else "n_second")
        m_i = fit_kwargs.get("m_first" if i == 0 else "m_second")
        iz = bool(fit_kwargs.get("include_zero", False))
        if not single:
            ref = public_fit(pts, iz, i, n_i, m_i)
            ok = (fits[i].n == ref.n and fits[i].m == ref.m and core.close(fits[i].alpha, ref.alpha, 1e-11)
                  and len(fits[i].a) == len(ref.a) and len(fits[i].b) == len(ref.b)
                  and all(core.close(float(p), float(r), 1e-11, 1e-300) for p, r in zip(list(fits[i].a) + list(fits[i].b), list(ref.a) + list(ref.b))))
            if not ok:
                v.append(core.viol("C05/fit_not_public_best_fit/" + kind, "returned fit of component %d differs from find_best_fit on that component's permeances" % (i + 1),
                                   returned=[fits[i].n, fits[i].m, float(fits[i].alpha), list(map(float, fits[i].a)), list(map(float, fits[i].b))],
                                   public=[ref.n, ref.m, float(ref.alpha), list(map(float, ref.a)), list(map(float, ref.b))]))
        else:
            tc = float(curve_set.diffusion_curves[0].feed_temperature)
            cands = [public_fit(pts, z, i, n_i, 0) for z in ({iz, False})]
            at_tc = [same_function(fits[i], c, xs, [tc], 1e-10) for c in cands]
            if all(a is not None for a in at_tc):
                x, t, a, b = at_tc[0]
                v.append(core.viol("C05/single_curve_fit/" + kind, "component %d: returned fit gives %r at x=%r and the curve temperature, public best fit gives %r" % (i + 1, a, x, b)))
                continue
            st, ea = core.call(membrane.calculate_activation_energy, comp)
            if st != "ok":
                continue
            for t in (t_model, tc + 17.0, tc - 23.0):
                if t == tc:
                    continue
                if kind in ("nonideal_iso", "curve") and t_model == tc:
                    break  # no re-scaling was applied: the fit keeps its own (fitted) temperature dependence
                for x in xs:
                    ratio = float(fits[i](x, t)) / float(fits[i](x, tc))
                    want = math.exp(-float(ea) / U.R * (1 / t - 1 / tc))
                    if not core.close(ratio, want, 1e-10):
                        v.append(core.viol("C05/single_curve_arrhenius/" + kind, "component %d: fit(x, %r)/fit(x, %r) = %r, Arrhenius factor of the membrane's activation energy %r" % (
                            i + 1, t, tc, ratio, want)))
                        break
                if v:
                    break
    return v


def judge_curve(case):
    mix = U.get_mixture(case["mixture"])
    cfg = case["curves"]
    cs = U.make_curve_set(mix, law=cfg["law"], temps=tuple(cfg["temps"]), basis=cfg.get("basis", "weight"), units=cfg.get("units", U.Units.kg_m2_h_kPa))
    ea = case.get("ea", (25000.0, 60000.0))
    mem = U.make_membrane(mix, 1e-2, 1e-4, t_ref=case["T"] - 9.0, ea1=ea[0], ea2=ea[1], curve_sets=[cs])
    pv = U.Pervaporation(membrane=mem, mixture=mix)
    mode = tuple(case["mode"]) if case["mode"] != "vac" else "vac"
    kw = U.permeate_kwargs(mode, case["T"])
    ip = case.get("init_perm")
    init = None
    if ip is not None:
        init = tuple(U.Permeance(value=val) for val in ip["values"])
    # the curve model returns no fits: observe them through the seam on find_best_fit
    seen = []
    real = U.pyvaporation.pervaporation.pervaporation.find_best_fit

    def spy(*a, **k):
        r = real(*a, **k)
        seen.append(r)
        return r

    U.pyvaporation.pervaporation.pervaporation.find_best_fit = spy
    try:
        st, curve = core.call(pv.non_ideal_diffusion_curve, diffusion_curve_set=cs, feed_temperature=case["T"],
                              initial_feed_composition=U.composition(case["x0"], case["basis"], mix), delta_composition=case["dx"],
                              number_of_steps=case["steps"], precision=5e-5, calculation_type=case["model"], initial_permeances=init,
                              **dict(case.get("fit_kwargs", {})), **kw)
    finally:
        U.pyvaporation.pervaporation.pervaporation.find_best_fit = real
    if st != "ok":
        return core.result("raised", nontrivial=False)
    v = []
    xs = [U.mass_fraction(c, mix) for c in curve.feed_compositions]
    P = [(float(p[0].value), float(p[1].value)) for p in curve.permeances]
    # closed-form expectation of the law cannot be used (fits are approximations); the model's own functions are
    # observable only through their values: permeances along the curve must be ONE function of x per component,
    # scaled so that point 0 reproduces the initial permeances; check against the public fit + Arrhenius rule
    single = len(cs.diffusion_curves) == 1
    tc = float(cs.diffusion_curves[0].feed_temperature)
    iz = bool(case.get("fit_kwargs", {}).get("include_zero", False))
    for i, comp in ((0, mix.first_component), (1, mix.second_component)):
        pts = harness_measurements(cs, mix, i)
        fk = case.get("fit_kwargs", {})
        n_i = fk.get("n_first" if i == 0 else "n_second")
        m_i = fk.get("m_first" if i == 0 else "m_second")
        cands = []
        if single:
            for z in {iz, False}:
                ref = public_fit(pts, z, i, n_i, 0)
                if case["T"] == tc:
                    cands.append(lambda x, ref=ref: float(ref(x, tc)))
                else:
                    st_e, ea = core.call(mem.calculate_activation_energy, comp)
                    if st_e != "ok":
                        return core.result("no-activation-energy", nontrivial=False)
                    cands.append(lambda x, ref=ref, ea=float(ea): float(ref(x, tc)) * math.exp(-ea / U.R * (1 / case["T"] - 1 / tc)))
        else:
            ref = public_fit(pts, iz, i, n_i, m_i)
            cands.append(lambda x, ref=ref: float(ref(x, case["T"])))
        ok_any = False
        for f in cands:
            F = (P[0][i] / f(xs[0])) if f(xs[0]) != 0 else math.nan
            if init is not None:
                want0 = float(init[i].value)
            else:
                want0 = f(xs[0])
            good = core.close(P[0][i], want0, 1e-10)
            for k in range(len(xs)):
                w = f(xs[k]) * F
                w = w if w >= 0 else 0.0
                if not core.close(P[k][i], w, 1e-10, 1e-300):
                    good = False
                    break
            if good:
                ok_any = True
                break
        if not ok_any:
            v.append(core.viol("C05/curve_permeance_not_from_fit", "component %d: permeances along the non-ideal curve are not the public best fit (Arrhenius-rescaled for a single curve) times a constant fixed by the initial permeances" % (i + 1),
                               P=[p[i] for p in P[:4]], x=xs[:4]))
    return core.result("judged", digest=core.digest_of([P]), viol=v, states=len(xs), transitions=len(xs) - 1, traces=1, sample={"P": P[:3]})


def process_space(tier, seed):
    q = tier == "quick"
    alph = {
        "kind": ["nonideal_iso", "nonideal_noniso"],
        "mixture": ["H2O_EtOH", "S5"] if q else ["H2O_EtOH", "MeOH_DMC", "S1", "S2", "S4", "S5"],
        "model": ["NRTL"] if q else ["NRTL", "UNIQUAC"],
        "mode": ["vac", ("T", -20.0), ("p", 0.5)],
        "prog": ["none", "poly"],
        "curves": [spaces.CURVE_CONFIGS["one"], spaces.CURVE_CONFIGS["two"], spaces.CURVE_CONFIGS["oneB_molar"], spaces.CURVE_CONFIGS["oneC"], spaces.CURVE_CONFIGS["two_sameT"]] if q else list(spaces.CURVE_CONFIGS.values()),
        "init_perm": [None, {"values": (2.5e-2, 3.0e-5)}, {"values": (1.0e-2, 8.0e-5), "units": "GPU"}, {"values": (2.0e-2, 4.0e-9)}],
        "fit_kwargs": [{}, {"n_first": 0, "n_second": 1, "m_first": 1, "m_second": 0}] + ([] if q else [{"n_first": 1, "n_second": 1, "m_first": 0, "m_second": 0}]) + ([] if q else [{"n_first": 2, "n_second": 1, "m_first": 1, "m_second": 1, "include_zero": True}]),
        "area": [1.0] if q else [0.05, 1.0], "amount": [50.0], "dt": core.lat([0.5, 2.0], seed)[:1] if q else core.lat([0.5, 2.0], seed),
        "ea": [(25000.0, 60000.0), (-9000.0, 0.0)],  # a negative and a zero activation energy are as valid as positive ones
        "steps": [1, 5],
        "x0": core.lat([0.1, 0.45], seed), "basis": ["weight", "molar"], "T": [333.15, 338.15, 318.15, 333.4] if q else [333.15, 338.15, 318.15, 333.4, 333.151],
    }

    def ok(c):
        return U.has_model(U.get_mixture(c["mixture"]), c["model"]) and not (c["kind"] == "nonideal_iso" and c["prog"] != "none")

    return core.Space("nonideal_processes", alph, ok)


def unit_space(tier, seed):
    """initial permeances stated in every unit and in a different unit per component, on a membrane so small (1e-7 m2) that not even
    a permeance wrong by a unit-conversion constant exhausts the feed: the run returns and is judged."""
    q = tier == "quick"
    KG = U.Units.kg_m2_h_kPa
    alph = {
        "kind": ["nonideal_iso", "nonideal_noniso"], "mixture": ["H2O_EtOH"] if q else ["H2O_EtOH", "S2"], "model": ["NRTL"],
        "mode": ["vac", ("T", -20.0)], "prog": ["none", "poly"],
        "curves": [spaces.CURVE_CONFIGS["one"], spaces.CURVE_CONFIGS["two"]],
        "init_perm": [{"values": (2.5e-2, 3.0e-5), "units": [a_, b_]} for a_ in (KG, "SI", "GPU") for b_ in (KG, "SI", "GPU")],
        "fit_kwargs": [{}], "area": [1e-7], "amount": [50.0], "dt": core.lat([0.5], seed), "ea": [(25000.0, 60000.0)], "steps": [4],
        "x0": core.lat([0.1], seed), "basis": ["weight", "molar"], "T": [333.15, 338.15],
    }
    return core.Space("nonideal_processes_initial_permeance_units", alph, lambda c: not (c["kind"] == "nonideal_iso" and c["prog"] != "none"))


def drift_space(tier, seed):
    """runs whose feed DRIFTS OUT of the composition range the curves were measured over (and runs that start outside it): the
    permeances still follow the returned fits at the step's own composition."""
    alph = {
        "kind": ["nonideal_iso", "nonideal_noniso"], "mixture": ["H2O_EtOH"], "model": ["NRTL"], "mode": ["vac"], "prog": ["none"],
        "curves": [{"law": "lawA", "temps": [333.15], "xs": [0.3, 0.4, 0.5, 0.6, 0.7]}, {"law": "lawA", "temps": [343.15, 313.15], "xs": [0.3, 0.4, 0.5, 0.6, 0.7]}],
        "init_perm": [None, {"values": (2.5e-2, 3.0e-5)}], "fit_kwargs": [{}], "area": [3.0], "amount": [50.0], "dt": core.lat([2.0], seed), "ea": [(25000.0, 60000.0)],
        "steps": [5], "x0": core.lat([0.33, 0.25, 0.72], seed), "basis": ["weight"], "T": [333.15, 338.15],
    }
    return core.Space("nonideal_processes_leaving_measured_range", alph)


def curve_space(tier, seed):
    q = tier == "quick"
    alph = {
        "kind": ["curve"], "mixture": ["H2O_EtOH", "S2"], "model": ["NRTL"] if q else ["NRTL", "UNIQUAC"],
        "mode": ["vac", ("T", -20.0), ("p", 0.5)],
        "curves": [spaces.CURVE_CONFIGS["one"], spaces.CURVE_CONFIGS["two"], spaces.CURVE_CONFIGS["oneB_molar"], spaces.CURVE_CONFIGS["oneC"], spaces.CURVE_CONFIGS["two_sameT"]] if q else list(spaces.CURVE_CONFIGS.values()),
        "init_perm": [None, {"values": (2.5e-2, 3.0e-5)}, {"values": (2.0e-2, 4.0e-9)}],
        "fit_kwargs": [{}, {"n_first": 1, "n_second": 1, "m_first": 0, "m_second": 0}, {"include_zero": True}],
        "x0": core.lat([0.1, 0.45], seed), "basis": ["weight", "molar"], "T": [333.15, 338.15, 318.15, 333.4], "ea": [(25000.0, 60000.0), (-9000.0, 0.0)], "dx": [0.03, -0.01], "steps": [1, 4],
    }
    return core.Space("nonideal_curves", alph, lambda c: U.has_model(U.get_mixture(c["mixture"]), c["model"]))


def prewarm_public(space):
    """public fits for every distinct (curve set, options) once in the parent."""
    seen = set()
    for i in range(space.size):
        c = space.case(i)
        if c is None:
            continue
        key = core.digest_of([c["curves"], c["mixture"], c.get("fit_kwargs")])
        if key in seen:
            continue
        seen.add(key)
        mix = U.get_mixture(c["mixture"])
        cfg = c["curves"]
        cs = U.make_curve_set(mix, law=cfg["law"], temps=tuple(cfg["temps"]), basis=cfg.get("basis", "weight"), units=cfg.get("units", U.Units.kg_m2_h_kPa))
        fk = c.get("fit_kwargs", {})
        single = len(cs.diffusion_curves) == 1
        for ci in (0, 1):
            pts = harness_measurements(cs, mix, ci)
            n_i = fk.get("n_first" if ci == 0 else "n_second")
            m_i = 0 if single else fk.get("m_first" if ci == 0 else "m_second")
            for z in {bool(fk.get("include_zero", False)), False} if single else {bool(fk.get("include_zero", False))}:
                public_fit(pts, z, ci, n_i, m_i)


def main(tier, seed):
    rep = core.Report(
        ID, "model_checking", tier, seed,
        rule="every element of the finite lattice (curve set x initial permeances x requested orders x modelling temperature x "
             "mode x kind x feed) is run once; every step's permeance pair is compared with the returned fits; the fits are "
             "compared with the public best-fit search on harness-extracted measurements; non-trivial = returned and judged",
        assumptions=["find_best_fit taken as given (judged by C16) and memoised", "single-curve include_zero may be as passed or False "
                     "(the models differ and the statement does not choose)", "isothermal model: lag 0 or 1, one per run"],
        technique="explicit-state trace conformance of the permeance series against the returned fits, and differential comparison of the fits with the public search")
    U.install_fit_memo()
    for sp in (process_space(tier, seed), unit_space(tier, seed), drift_space(tier, seed), curve_space(tier, seed)):
        prewarm_public(sp)
        if sp.name.startswith("nonideal_processes"):
            spaces.prewarm(sp)
        core.run_space(rep, sp, judge)
    return rep.finish()


def replay(body):
    U.install_fit_memo()
    r = judge(body["case"])
    for v in r["viol"]:
        print("violation key=%s: %s" % (v["key"], v["msg"]))
    print("replayed: outcome=%s violations=%d" % (r["outcome"], len(r["viol"])))
    return 1 if r["viol"] else 0
