"""The universe of objects the checks enumerate over: built-in and synthetic mixtures, membranes,
conditions, curve sets.  Everything is built from small JSON-able coordinates so a case can be
replayed from its replay file.

Synthetic values are *generic*: pairwise distinct, non-zero, no accidental symmetry (M1 != M2,
tau12 != tau21, ...), so that a formula slip (wrong component, wrong index, dropped factor) is
visible at every lattice point.
"""
import os
import sys
import warnings
from fractions import Fraction

os.environ.setdefault("MPLBACKEND", "Agg")
warnings.filterwarnings("ignore")

import numpy  # noqa: E402

numpy.seterr(all="ignore")

import pyvaporation  # noqa: E402
from pyvaporation import (  # noqa: E402
    Component, Components, Composition, CompositionType, Conditions, DiffusionCurve, DiffusionCurveSet,
    HeatCapacityConstants, IdealExperiment, IdealExperiments, Membrane, Mixture, Mixtures, NRTLParameters,
    Permeance, Pervaporation, TemperatureProgram, UNIQUACConstants, UNIQUACParameters, Units,
    VaporPressureConstants,
)

R = pyvaporation.R
REPO = os.path.dirname(os.path.dirname(os.path.abspath(pyvaporation.__file__)))

BUILTIN_MIXTURES = ["H2O_MeOH", "H2O_EtOH", "H2O_iPOH", "H2O_AceticAcid", "EtOH_ETBE", "MeOH_Toluene", "MeOH_MTBE",
                    "MeOH_DMC"]
BUILTIN_COMPONENTS = ["H2O", "MeOH", "EtOH", "iPOH", "MTBE", "ETBE", "DME", "DMC", "CycloHexane", "Benzene",
                      "Toluene", "AceticAcid"]

# ---------------------------------------------------------------------------------------------
# synthetic components and mixtures
# ---------------------------------------------------------------------------------------------
_SYN_COMPONENTS = {
    "SA": dict(mw=20.5, vp=(7.10, -1700.0, -40.0, "antoine"), cp=(31.0, 2.1e-3, 1.3e-5, -3.1e-9), uq=(0.92, 1.40, 1.00)),
    "SB": dict(mw=46.1, vp=(7.30, -1650.0, -45.0, "antoine"), cp=(61.0, 1.9e-1, -2.3e-5, 4.7e-9), uq=(2.11, 1.97, 0.92)),
    "SC": dict(mw=101.3, vp=(16.0, -3800.0, -2.0e5, "frost"), cp=(95.0, 3.3e-1, -1.1e-4, 2.9e-8), uq=(3.90, 3.30, None)),
    "SD": dict(mw=250.7, vp=(15.2, -3300.0, -2.6e5, "frost"), cp=(180.0, 5.2e-1, 1.7e-4, -6.1e-8), uq=(5.20, 4.60, 4.10)),
}

_SYN_MIXTURES = {
    # name: (first, second, nrtl kwargs or None, uniquac (a12, a21, b12, b21, z) or None)
    "S1": ("SA", "SB", dict(g12=4200.0, g21=-500.0, alpha12=0.3), (50.0, 120.0, -900.0, 2400.0, 10)),
    "S2": ("SB", "SC", dict(g12=3100.0, g21=900.0, alpha12=0.25, alpha21=0.4, a12=0.6, a21=-0.35),
           (-80.0, 210.0, 1500.0, -700.0, 10)),
    "S3": ("SA", "SD", dict(g12=0.0, g21=0.0, alpha12=0.3), None),
    "S4": ("SC", "SD", dict(g12=1500.0, g21=2600.0, alpha12=0.45), (150.0, -60.0, -1200.0, 2100.0, 12)),
}
# S5: the same constants as S4 but its components are NAMED like built-in ones: anything keyed by component / mixture
# name instead of by the object's constants collides with H2O_EtOH inside one worker process
_SYN_COMPONENTS["H2O"] = dict(_SYN_COMPONENTS["SC"])
_SYN_COMPONENTS["EtOH"] = dict(_SYN_COMPONENTS["SD"])
_SYN_MIXTURES["S5"] = ("H2O", "EtOH", dict(g12=1500.0, g21=2600.0, alpha12=0.45), (150.0, -60.0, -1200.0, 2100.0, 12))
# S6: the FIRST component is the heavier one (every built-in mixture and S1..S5 list the lighter component first)
_SYN_MIXTURES["S6"] = ("SD", "SB", dict(g12=2100.0, g21=3400.0, alpha12=0.35, alpha21=0.5, a12=-0.2, a21=0.45), (-90.0, 170.0, 1900.0, -800.0, 10))
SYNTHETIC_MIXTURES = list(_SYN_MIXTURES)
ALL_MIXTURES = BUILTIN_MIXTURES + SYNTHETIC_MIXTURES


def make_component(name, mw, vp, cp, uq=None):
    return Component(
        name=name,
        molecular_weight=mw,
        vapour_pressure_constants=VaporPressureConstants(a=vp[0], b=vp[1], c=vp[2], type=vp[3]),
        heat_capacity_constants=HeatCapacityConstants(a=cp[0], b=cp[1], c=cp[2], d=cp[3]),
        uniquac_constants=None if uq is None else UNIQUACConstants(r=uq[0], q_geometric=uq[1], q_interaction=uq[2]),
    )


def syn_component(name):
    d = _SYN_COMPONENTS[name]
    return make_component(name, d["mw"], d["vp"], d["cp"], d["uq"])


def get_mixture(name):
    """Built-in mixtures are the library's own singletons; synthetic ones are built fresh."""
    if name in BUILTIN_MIXTURES:
        return getattr(Mixtures, name)
    first, second, nrtl, uq = _SYN_MIXTURES[name]
    return Mixture(
        name="H2O_EtOH" if name == "S5" else name,
        first_component=syn_component(first),
        second_component=syn_component(second),
        nrtl_params=None if nrtl is None else NRTLParameters(**nrtl),
        uniquac_params=None if uq is None else UNIQUACParameters(alpha_12=uq[0], alpha_21=uq[1], beta_12=uq[2],
                                                                 beta_21=uq[3], z=uq[4]),
    )


def has_model(mixture, model):
    if model == "NRTL":
        return mixture.nrtl_params is not None
    return (mixture.uniquac_params is not None and mixture.first_component.uniquac_constants is not None
            and mixture.second_component.uniquac_constants is not None)


def swap_mixture(mixture):
    """The relabelled twin: components exchanged and all interaction parameters mirrored."""
    n = mixture.nrtl_params
    u = mixture.uniquac_params
    nrtl = None
    if n is not None:
        if n.alpha21 is None:
            nrtl = NRTLParameters(g12=n.g21, g21=n.g12, alpha12=n.alpha12, alpha21=None, a12=n.a21, a21=n.a12)
        else:
            nrtl = NRTLParameters(g12=n.g21, g21=n.g12, alpha12=n.alpha21, alpha21=n.alpha12, a12=n.a21, a21=n.a12)
    uq = None
    if u is not None:
        uq = UNIQUACParameters(alpha_12=u.alpha_21, alpha_21=u.alpha_12, beta_12=u.beta_21, beta_21=u.beta_12, z=u.z)
    return Mixture(name=mixture.name + "_swapped", first_component=mixture.second_component,
                   second_component=mixture.first_component, nrtl_params=nrtl, uniquac_params=uq)


# ---------------------------------------------------------------------------------------------
# exact composition conversion (reference; the library's own conversion is judged by C15)
# ---------------------------------------------------------------------------------------------
def exact_to_molar(p, m1, m2):
    p, m1, m2 = Fraction(p), Fraction(m1), Fraction(m2)
    return float((p / m1) / (p / m1 + (1 - p) / m2))


def exact_to_weight(p, m1, m2):
    p, m1, m2 = Fraction(p), Fraction(m1), Fraction(m2)
    return float((m1 * p) / (m1 * p + m2 * (1 - p)))


def mass_fraction(comp, mixture):
    """mass fraction of the first component of a library Composition, by exact rationals."""
    if comp.type == CompositionType.weight:
        return float(comp.p)
    return exact_to_weight(float(comp.p), mixture.first_component.molecular_weight,
                           mixture.second_component.molecular_weight)


def composition(p, basis, mixture=None):
    """A Composition for mass fraction p, expressed in `basis` ('weight' or 'molar')."""
    if basis == "weight":
        return Composition(p=p, type=CompositionType.weight)
    return Composition(
        p=exact_to_molar(p, mixture.first_component.molecular_weight, mixture.second_component.molecular_weight),
        type=CompositionType.molar)


def exact_permeance(value_kg, unit, mw):
    """a Permeance holding `value_kg` kg/(m2 h kPa) expressed in `unit`, by exact rational factors - the harness never
    prepares its inputs with the library's own convert (a slip or a cache in there would poison the oracle)."""
    if unit == Units.kg_m2_h_kPa:
        return Permeance(value=value_kg, units=unit)
    si = Fraction(value_kg) / (Fraction(mw) * 3600)
    return Permeance(value=float(si if unit == "SI" else si / Fraction("3.35e-10")), units=unit)


def exact_permeance_to_kg(number, unit, mw):
    """the number `number` stated in `unit`, as kg/(m2 h kPa) for a component of molar mass mw (exact rational factors)."""
    if unit == Units.kg_m2_h_kPa:
        return float(number)
    si = Fraction(number) * (1 if unit == "SI" else Fraction("3.35e-10"))
    return float(si * Fraction(mw) * 3600)


# ---------------------------------------------------------------------------------------------
# membranes
# ---------------------------------------------------------------------------------------------
def make_membrane(mixture, p1, p2, t_ref, ea1=None, ea2=None, extra_temps=(), units=Units.kg_m2_h_kPa,
                  name="M", path=None, curve_sets=None):
    """Ideal experiments for both components.  One experiment per component at t_ref with permeance
    p_i (kg/(m2 h kPa) before conversion to `units`) and stated activation energy ea_i; if
    extra_temps is given, further experiments on the same Arrhenius line (and ea left unstated if
    ea_i is passed as ('fit', value))."""
    exps = []
    for comp, p, ea in ((mixture.first_component, p1, ea1), (mixture.second_component, p2, ea2)):
        stated = ea
        true_ea = ea
        if isinstance(ea, tuple):
            stated = None
            true_ea = ea[1]
        temps = [t_ref] + list(extra_temps)
        for t in temps:
            val = p if t == t_ref else p * float(numpy.exp(-true_ea / R * (1 / t - 1 / t_ref)))
            perm = exact_permeance(val, units, comp.molecular_weight)
            exps.append(IdealExperiment(name="e", temperature=t, component=comp, permeance=perm,
                                        activation_energy=stated))
    return Membrane(name=name, ideal_experiments=IdealExperiments(experiments=exps), diffusion_curve_sets=curve_sets,
                    path=path)


# ---------------------------------------------------------------------------------------------
# temperature programmes (coefficients keep T within 280..380 K over 0..30 h)
# ---------------------------------------------------------------------------------------------
PROGRAMMES = {
    "none": None,
    "poly": ("polynomial", [333.15, -1.5, 0.05]),
    "exp": ("exponential", [310.0, 0.072, -0.004]),  # T = c0*exp(c1 + c2*t); every coefficient non-zero (generic)
    "exp3": ("exponential", [352.0, -0.055, 0.006, -0.0002]),  # T = c0*exp(c1 + c2*t + c3*t^2)
    "poly3": ("polynomial", [318.15, 2.2, -0.11, 0.0013]),
    "log": ("logarithmic", [140.0, 10.8, 0.12]),  # T = c0*ln(c1 + c2*t)
    "log3": ("logarithmic", [150.0, 8.9, 0.21, -0.003]),
    "poly_slow": ("polynomial", [333.15, 0.002]),  # 2 mK per hour: a non-isothermal run whose temperatures are all "close"
    "cold_hold": ("polynomial", [313.15, 1e-3]),  # far below a hot stated initial temperature from the first programme point on
    "poly_cross0": ("polynomial", [300.0, -400.0]),  # crosses 0 K within the first step(s)
    # programmes that DIVERGE at one grid time in the middle of a run (ordinary temperatures before and after): +inf at t = 2 h
    "log_sing2": ("logarithmic", [-100.0, 0.14753266960496006, -0.14753266960496006, 0.036883167401240015]),  # T = -100 ln(k (t - 2)^2)
    "exp_overflow": ("exponential", [330.0, 0.0, -800.0, 800.0]),  # 330 K at t = 0 and 1 h, overflow from t = 2 h on
    "poly_to_1K": ("polynomial", [333.15, -332.0, 83.0]),  # 333.15, 84.15, 1.15, 84.15 K at t = 0..3 h: positive throughout, fluxes underflow to 0 at 1 K
    "log_t0": ("logarithmic", [40.0, 0.0, 5962.0]),  # -inf at t = 0, about 320 K at t = 0.5 h: only the STATED initial temperature is valid at step 0
}


def programme(name):
    spec = PROGRAMMES[name]
    if spec is None:
        return None
    return TemperatureProgram(coefficients=list(spec[1]), type=spec[0])


def programme_value(name, t):
    """reference evaluation of a programme (harness side)."""
    kind, c = PROGRAMMES[name]
    if kind == "polynomial":
        return sum(c[i] * t ** i for i in range(len(c)))
    inner = sum(c[i] * t ** (i - 1) for i in range(1, len(c)))
    if kind == "exponential":
        return c[0] * float(numpy.exp(inner))
    return c[0] * float(numpy.log(inner))


# ---------------------------------------------------------------------------------------------
# permeate modes
# ---------------------------------------------------------------------------------------------
def permeate_kwargs(mode, feed_t):
    """mode: 'vac' | ('T', offset_or_abs) | ('p', kPa).  ('T', d) with d <= 0 is relative to the feed."""
    if mode == "vac" or mode is None:
        return {}
    kind, v = mode
    if kind == "T":
        return {"permeate_temperature": feed_t + v if v <= 0 else v}
    if kind == "p":
        return {"permeate_pressure": v}
    raise ValueError(mode)


def make_conditions(mixture, area, t0, amount, x0, basis="weight", mode="vac", prog="none"):
    kw = permeate_kwargs(mode, t0)
    return Conditions(
        membrane_area=area, initial_feed_temperature=t0, initial_feed_amount=amount,
        initial_feed_composition=composition(x0, basis, mixture),
        permeate_temperature=kw.get("permeate_temperature"), permeate_pressure=kw.get("permeate_pressure"),
        temperature_program=programme(prog),
    )


# ---------------------------------------------------------------------------------------------
# synthetic diffusion-curve sets with composition- (and temperature-) dependent permeances
# P_i(x, T) = alpha_i * exp(a_i1 x + a_i2 x^2 - (b_i0 + b_i1 x)/T)   (representable by the fit)
# ---------------------------------------------------------------------------------------------
CURVE_LAWS = {
    "lawA": ((2.0e1, 1.3, -0.4, 2300.0, 150.0), (3.0e-2, -0.9, 0.3, 1900.0, -120.0)),
    "lawB": ((6.0e2, -0.7, 0.0, 3100.0, 0.0), (4.0e0, 1.1, 0.0, 3600.0, 0.0)),
    "lawC": ((2.0e1, 1.3, -0.4, 2300.0, 150.0), (3.0e-7, -0.9, 0.3, 1900.0, -120.0)),  # very selective: second component ~1e-9
}
CURVE_XS = [0.05, 0.15, 0.3, 0.45, 0.6, 0.75, 0.9]


def law_value(law, comp_index, x, t):
    al, a1, a2, b0, b1 = CURVE_LAWS[law][comp_index]
    return al * float(numpy.exp(a1 * x + a2 * x * x - (b0 + b1 * x) / t))


def make_curve_set(mixture, law="lawA", temps=(333.15,), basis="weight", units=Units.kg_m2_h_kPa, xs=None,
                   name="set"):
    xs = CURVE_XS if xs is None else xs
    curves = []
    for t in temps:
        perms = []
        for x in xs:
            pair = []
            for ci, comp in ((0, mixture.first_component), (1, mixture.second_component)):
                pair.append(exact_permeance(law_value(law, ci, x, t), units, comp.molecular_weight))
            perms.append(tuple(pair))
        curves.append(DiffusionCurve(mixture=mixture, membrane_name="M", feed_temperature=t,
                                     feed_compositions=[composition(x, basis, mixture) for x in xs],
                                     permeances=perms))
    return DiffusionCurveSet(name=name, diffusion_curves=curves)


def repo_membrane(name):
    return Membrane.load(os.path.join(REPO, "tests", "default_membranes", name))


# ---------------------------------------------------------------------------------------------
# seams (harness side only)
# ---------------------------------------------------------------------------------------------
_FIT_MEMO = {}
_REAL_FIND_BEST_FIT = None


def install_fit_memo():
    """Wrap pervaporation.find_best_fit by a memo returning deep copies (the models assign b[0] in
    place on arrays shared through __mul__).  Used only by checks that take find_best_fit as given."""
    import copy
    import pyvaporation.pervaporation.pervaporation as pv
    global _REAL_FIND_BEST_FIT
    if _REAL_FIND_BEST_FIT is not None:
        return
    _REAL_FIND_BEST_FIT = pv.find_best_fit

    def memo(data, include_zero=False, component_index=0, n=None, m=None):
        key = (tuple((float(d.x).hex(), float(d.t).hex(), float(d.p).hex()) for d in data.data), bool(include_zero),
               component_index, n, m)
        if key not in _FIT_MEMO:
            _FIT_MEMO[key] = _REAL_FIND_BEST_FIT(data=data, include_zero=include_zero,
                                                 component_index=component_index, n=n, m=m)
        return copy.deepcopy(_FIT_MEMO[key])

    pv.find_best_fit = memo


def uninstall_fit_memo():
    import pyvaporation.pervaporation.pervaporation as pv
    global _REAL_FIND_BEST_FIT
    if _REAL_FIND_BEST_FIT is not None:
        pv.find_best_fit = _REAL_FIND_BEST_FIT
        _REAL_FIND_BEST_FIT = None
