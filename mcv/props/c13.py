"""C13 - latent and cooling heats are consistent with vapour pressure and heat capacity.

E1: components (all built-ins + a lattice of Antoine / Frost constant triples) x temperatures:
H = R T^2 dlnPsat/dT by Richardson-extrapolated central differences (FD class); cubic Cp lattice x
temperature triples: cooling heat additive, antisymmetric, zero on an empty interval,
d/dT_upper = Cp.
"""
import math

import numpy

from .. import core, universe as U

ID = "C13"
_CP = (30.0, 0.1, 0.0, 0.0)


def vp_component(spec):
    if isinstance(spec, str):
        return getattr(U.Components, spec)
    return U.make_component("X", 50.0, tuple(spec), _CP)


def dlnp(comp, t):
    def f(x):
        return math.log(float(comp.get_vapor_pressure(x)))

    def cd(h):
        return (f(t + h) - f(t - h)) / (2 * h)

    h = 0.5
    return (4 * cd(h / 2) - cd(h)) / 3  # Richardson: O(h^4)


def judge_vp(case):
    comp = vp_component(case["component"])
    t = case["T"]
    c = comp.vapour_pressure_constants
    if c.type == "antoine" and abs(t + c.c) < 30:
        return core.result("near-antoine-pole", nontrivial=False)
    st, h = core.call(comp.get_vaporisation_heat, t)
    if st != "ok":
        return core.result("raised", viol=[core.viol("C13/heat_raises", "get_vaporisation_heat(%r) raises %r" % (t, h))])
    try:
        ref = U.R * t * t * dlnp(comp, t) / 1000
    except (ValueError, OverflowError):
        return core.result("pressure-not-positive", nontrivial=False)
    v = []
    if not abs(float(h) - ref) <= core.FD * abs(ref) + 1e-12:
        v.append(core.viol("C13/clausius_clapeyron/" + c.type, "heat of vaporisation %r kJ/mol at %r K, R T^2 dlnPsat/dT = %r" % (float(h), t, ref),
                           constants=[c.a, c.b, c.c]))
    # the same temperature stated as an integer (python int, numpy integer): same physics, same number
    ti = int(round(t))
    if not (c.type == "antoine" and abs(ti + c.c) < 30):
        for mk in (int, numpy.int64, numpy.int32):
            for name, fn in (("heat", comp.get_vaporisation_heat), ("pressure", comp.get_vapor_pressure)):
                s1, a1 = core.call(fn, mk(ti))
                s2, a2 = core.call(fn, float(ti))
                if s2 != "ok":
                    continue
                if s1 != "ok" or not abs(float(a1) - float(a2)) <= core.ULP * abs(float(a2)):
                    v.append(core.viol("C13/integer_temperature/" + name + "/" + c.type, "%s at %s(%d) = %r but at %r it is %r" % (name, mk.__name__, ti, a1, float(ti), a2),
                                       constants=[c.a, c.b, c.c]))
    # history: the caller edits the constants in place (or replaces them) after a query - 'for every constant set' includes the edited one
    if not isinstance(case["component"], str):
        comp.get_vapor_pressure(t)
        for how in ("in_place", "replaced"):
            a_, b_, c_, ty = case["component"]
            b2 = b_ * (1.07 if how == "in_place" else 0.93)
            if how == "in_place":
                comp.vapour_pressure_constants.b = b2
            else:
                comp.vapour_pressure_constants = U.VaporPressureConstants(a=a_, b=b2, c=c_, type=ty)
            fresh = vp_component((a_, b2, c_, ty))
            for name in ("get_vaporisation_heat", "get_vapor_pressure"):
                r1, r2 = core.call(getattr(comp, name), t), core.call(getattr(fresh, name), t)
                if r1[0] != r2[0] or (r1[0] == "ok" and core.fhex(r1[1]) != core.fhex(r2[1])):
                    v.append(core.viol("C13/stale_after_constants_edited/" + name, "after the constants were %s (b %r -> %r) %s(%r) = %r, a fresh component with those constants gives %r"
                                       % (how, b_, b2, name, t, r1[1], r2[1]), constants=[a_, b2, c_]))
    return core.result("judged", digest=core.digest_of([core.fhex(h)]), viol=v, sample={"H": float(h), "ref": ref})


def cp_component(coefs):
    return U.make_component("X", 50.0, (7.0, -1600.0, -40.0, "antoine"), tuple(coefs))


def judge_cp(case):
    comp = cp_component(case["cp"]) if not isinstance(case["cp"], str) else getattr(U.Components, case["cp"])
    t0, t1, t2 = case["temps"]
    hc = comp.heat_capacity_constants
    v = []

    def h(a, b):
        return float(comp.get_cooling_heat(a, b))

    def scale(*ts):
        return sum(abs(hc.a * t) + abs(hc.b * t * t / 2) + abs(hc.c * t ** 3 / 3) + abs(hc.d * t ** 4 / 4) for t in ts)

    if not abs(h(t0, t1) + h(t1, t2) - h(t0, t2)) <= core.ULP * scale(t0, t1, t2):
        v.append(core.viol("C13/cooling_additive", "h(%r,%r)+h(%r,%r)=%r but h(%r,%r)=%r" % (t0, t1, t1, t2, h(t0, t1) + h(t1, t2), t0, t2, h(t0, t2))))
    if not abs(h(t0, t1) + h(t1, t0)) <= core.ULP * scale(t0, t1):
        v.append(core.viol("C13/cooling_antisymmetric", "h(%r,%r)=%r, h(%r,%r)=%r" % (t0, t1, h(t0, t1), t1, t0, h(t1, t0))))
    # the cooling heat IS the integral of the specific heat: Simpson's rule is exact for a cubic, also on tiny intervals
    for a_, b_ in ((t0, t1), (t1, t2), (t0, t0 - 1e-3), (t2, t2 + 1e-3), (t1, t1 - 1e-6), (t0, t0 + 7e-3)):
        simpson = (a_ - b_) / 6 * (float(comp.get_specific_heat(b_)) + 4 * float(comp.get_specific_heat((a_ + b_) / 2)) + float(comp.get_specific_heat(a_)))
        if not abs(h(a_, b_) - simpson) <= 1e-11 * scale(a_, b_) + 1e-9 * abs(simpson):
            v.append(core.viol("C13/cooling_integral", "cooling heat between %r and %r is %r, the integral of the specific heat is %r" % (a_, b_, h(a_, b_), simpson)))
            break
    if not abs(h(t0, t0 - 1e-3) + h(t0 - 1e-3, t1) - h(t0, t1)) <= core.ULP * scale(t0, t1) * 4:
        v.append(core.viol("C13/cooling_additive", "not additive when one sub-interval is 1 mK: h(%r,%r)+h(%r,%r) vs h(%r,%r)" % (t0, t0 - 1e-3, t0 - 1e-3, t1, t0, t1)))
    if h(t1, t1) != 0.0:
        v.append(core.viol("C13/cooling_empty_interval", "h(%r,%r)=%r" % (t1, t1, h(t1, t1))))
    # derivative with respect to the upper limit (first argument) = Cp
    for t in (t0, t2):
        d = 0.5

        def cd(hh):
            return (h(t + hh, t1) - h(t - hh, t1)) / (2 * hh)

        der = (4 * cd(d / 2) - cd(d)) / 3
        cp = float(comp.get_specific_heat(t))
        cps = abs(hc.a) + abs(hc.b * t) + abs(hc.c * t * t) + abs(hc.d * t ** 3)
        if not abs(der - cp) <= core.FD * cps + 1e-9:
            v.append(core.viol("C13/cooling_derivative", "d h/dT_upper at %r = %r but Cp = %r" % (t, der, cp)))
            break
    dig = core.digest_of([core.fhex(h(t0, t1)), core.fhex(h(t1, t2))])
    h01 = h(t0, t1)
    # integer-typed temperatures
    i0, i1 = int(round(t0)), int(round(t1))
    for mk in (int, numpy.int64):
        s1, a1 = core.call(comp.get_cooling_heat, mk(i0), mk(i1))
        a2 = h(float(i0), float(i1))
        if s1 != "ok" or not abs(float(a1) - a2) <= core.ULP * scale(i0, i1):
            v.append(core.viol("C13/integer_temperature/cooling", "cooling heat between %s %d and %d = %r, between the same floats %r" % (mk.__name__, i0, i1, a1, a2)))
        s1, a1 = core.call(comp.get_specific_heat, mk(i0))
        a2 = float(comp.get_specific_heat(float(i0)))
        if s1 != "ok" or not abs(float(a1) - a2) <= core.ULP * (abs(hc.a) + abs(hc.b * i0) + abs(hc.c * i0 * i0) + abs(hc.d * i0 ** 3)):
            v.append(core.viol("C13/integer_temperature/specific_heat", "specific heat at %s %d = %r, at the same float %r" % (mk.__name__, i0, a1, a2)))
    # history: constants edited in place / replaced after queries
    if not isinstance(case["cp"], str):
        co = list(case["cp"])
        for how, idx, val in (("in_place", 2, 3.3e-5), ("in_place", 3, -1.7e-8), ("replaced", 1, 0.27), ("in_place", 0, 55.5)):
            co[idx] = val
            if how == "in_place":
                setattr(comp.heat_capacity_constants, "abcd"[idx], val)
            else:
                comp.heat_capacity_constants = U.HeatCapacityConstants(a=co[0], b=co[1], c=co[2], d=co[3])
            fresh = cp_component(co)
            for name, args in (("get_cooling_heat", (t0, t1)), ("get_specific_heat", (t0,)), ("get_cooling_heat", (t2, t0))):
                r1, r2 = core.call(getattr(comp, name), *args), core.call(getattr(fresh, name), *args)
                if r1[0] != r2[0] or (r1[0] == "ok" and core.fhex(r1[1]) != core.fhex(r2[1])):
                    v.append(core.viol("C13/stale_after_constants_edited/" + name, "after coefficient %s was %s to %r, %s%r = %r; a fresh component with those constants gives %r"
                                       % ("abcd"[idx], how, val, name, args, r1[1], r2[1])))
    return core.result("judged", digest=dig, viol=v, sample={"h01": h01})


def main(tier, seed):
    q = tier == "quick"
    rep = core.Report(
        ID, "exploration", tier, seed,
        rule="every (component or constant triple, temperature) and every (Cp polynomial, temperature triple) of the finite "
             "lattices is evaluated once; non-trivial = judged (Antoine cases within 30 K of the pole excluded); distinct = "
             "distinct result bit patterns",
        assumptions=["finite-difference identities are judged at relative 1e-6 (Richardson-extrapolated central differences; "
                     "truncation error probes: 1e-12)"],
        technique="bounded exhaustive enumeration; identities checked by extrapolated finite differences")
    ant = [(a, b, c, "antoine") for a in (6.2, 7.2, 8.1) for b in (-900.0, -1733.0, -2600.0) for c in (-60.0, -39.5, 0.0, 15.0)]
    fro = [(a, b, c, "frost") for a in (14.0, 16.0, 18.5) for b in (-2500.0, -3800.0, -5200.0) for c in (-3.0e5, -1.0e5, 0.0, 5.0e4)]
    temps = core.lat([200.0, 220.0, 240.0, 260.0, 280.0, 300.0, 320.0, 340.0, 360.0, 380.0, 400.0, 420.0, 440.0, 460.0, 480.0, 500.0], seed)
    if q:
        temps = temps[::2]
    comps = list(U.BUILTIN_COMPONENTS) + ["SA", "SC"] + ant + fro
    comps = [c if not (isinstance(c, str) and c.startswith("S")) else U._SYN_COMPONENTS[c]["vp"] for c in comps]
    core.run_space(rep, core.Space("vapour_pressure", {"component": comps, "T": temps}), judge_vp)
    cps = [(a, b, c, d) for a in (-20.0, 32.2, 180.0) for b in (-0.3, 1.9e-3, 0.52) for c in (-1.1e-4, 0.0, 1.05e-5, 1.7e-4)
           for d in (-6.1e-8, -3.6e-9, 0.0, 2.9e-8)]
    triples = [(373.15, 333.15, 293.15), (300.0, 301.0, 299.0), (250.0, 480.0, 120.0)]
    if not q:
        triples += [(400.0, 273.15, 350.0), (120.0, 200.0, 500.0)]
    triples = [tuple(core.lat(sorted(t), seed)) if seed % core.R_MASTER else t for t in triples]
    core.run_space(rep, core.Space("cooling_heat", {"cp": list(U.BUILTIN_COMPONENTS) + cps, "temps": triples}), judge_cp)
    return rep.finish()


def replay(body):
    fn = judge_cp if body.get("space") == "cooling_heat" else judge_vp
    r = fn(body["case"])
    for v in r["viol"]:
        print("violation key=%s: %s" % (v["key"], v["msg"]))
    print("replayed: outcome=%s violations=%d" % (r["outcome"], len(r["viol"])))
    return 1 if r["viol"] else 0
