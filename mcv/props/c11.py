"""C11 - process models scale correctly with size and with the area/time trade-off.

E2 twins: each run of a process lattice is compared state by state with its scaled twins.
Size scaling (area*k, amount*k): intensive series unchanged, masses and heats * k.  Area/time
trade (area*k, dt/k, no programme): every per-step state unchanged.  Step-0 fluxes independent of
area, amount and step length.  For k = 2^j the comparison is BIT-exact (scaling by a power of two
commutes with every IEEE-754 operation in the loop), which makes this the sharpest oracle of the
suite; for other k a rounding-aware tolerance is used.
"""
import math

from .. import core, traces, universe as U
from . import spaces

ID = "C11"
POW2 = [2.0 ** -10, 2.0 ** -3, 2.0, 2.0 ** 10]
OTHER = [1e-3, 3.0, 1000.0]


def compare(base, twin, k_ext, exact, tol, what, kind):
    """intensive series equal, extensive series * k_ext."""
    v = []

    def eq(a, b):
        if a is None or b is None:
            return a is None and b is None
        if isinstance(a, float) and isinstance(b, float) and math.isnan(a) and math.isnan(b):
            return True
        return core.bit_eq(a, b) if exact else core.close(a, b, tol, 1e-300)

    for k in range(base["n"]):
        pairs = [("x", base["x"][k], twin["x"][k]), ("T", base["T"][k], twin["T"][k]), ("y", base["y"][k], twin["y"][k]),
                 ("J1", base["J"][k][0], twin["J"][k][0]), ("J2", base["J"][k][1], twin["J"][k][1]),
                 ("P1", base["P"][k][0], twin["P"][k][0]), ("P2", base["P"][k][1], twin["P"][k][1]),
                 ("m", base["m"][k] * k_ext, twin["m"][k]), ("Q", base["Q"][k] * k_ext, twin["Q"][k]),
                 ("Qc", None if base["Qc"][k] is None else base["Qc"][k] * k_ext, twin["Qc"][k])]
        for name, a, b in pairs:
            if not eq(a, b):
                v.append(core.viol("C11/%s/%s/%s" % (what, "exact" if exact else "approx", kind),
                                   "%s twin: series %s differs at step %d: expected %r, twin reports %r" % (what, name, k, a, b), step=k, series=name))
                return v
    return v


def judge(case):
    setup = traces.Setup(case)
    st, pm = setup.run()
    base = None
    if st == "ok":
        try:
            base = traces.extract(pm)
        except Exception:  # noqa: BLE001
            return core.result("malformed", nontrivial=False)
        if any(len(base[k]) != setup.steps for k in traces.SERIES):
            return core.result("bad-shape", nontrivial=False)
    v = []
    twins = 0
    prec_tol = 1e-9 * max(setup.steps, 1) if setup.mode == "vac" else 50 * setup.precision
    for k in POW2 + OTHER:
        exact = k in POW2
        specs = [("size", dict(case, area=case["area"] * k, amount=case["amount"] * k), k)]
        if setup.prog == "none":
            specs.append(("area_time", dict(case, area=case["area"] * k, dt=case["dt"] / k), 1.0))
        for what, tcase, kext in specs:
            if not exact and (base is None):
                continue
            ts = traces.Setup(tcase)
            # the twin is modelled by the SAME Pervaporation / membrane / curve-set objects as the base run (only the Conditions differ):
            # whatever an object remembers from the base run must not leak into the scaled run
            ts.pv, ts.membrane, ts.curve_set = setup.pv, setup.membrane, setup.curve_set
            st2, pm2 = ts.run()
            if (st2 == "ok") != (base is not None):
                if exact:
                    v.append(core.viol("C11/%s/outcome/%s" % (what, setup.kind), "%s twin (k=%r): base run %s but twin %s" % (
                        what, k, "returns" if base is not None else "raises", "returns" if st2 == "ok" else "raises %r" % (pm2,))))
                continue
            if st2 != "ok":
                continue
            try:
                tw = traces.extract(pm2)
            except Exception:  # noqa: BLE001
                continue
            if tw["n"] != base["n"]:
                continue
            twins += 1
            if what == "area_time" and not exact:
                # dt/k is not exact: time-step products round differently
                pass
            v.extend(compare(base, tw, kext, exact, prec_tol, what + "(k=%g)" % k if False else what, setup.kind))
            if v:
                break
        if v:
            break
    # step-0 fluxes independent of area, amount, step length (single-factor twins)
    if base is not None and not v:
        for name in ("area", "amount", "dt"):
            for k in (2.0 ** -3, 4.0, 3.0):
                ts = traces.Setup(dict(case, steps=1, **{name: case[name] * k}))
                st3, pm3 = ts.run()
                if st3 != "ok":
                    continue
                twins += 1
                j3 = (float(pm3.partial_fluxes[0][0]), float(pm3.partial_fluxes[0][1]))
                if not (core.bit_eq(j3[0], base["J"][0][0]) and core.bit_eq(j3[1], base["J"][0][1])):
                    v.append(core.viol("C11/step0_flux_depends_on_%s/%s" % (name, setup.kind), "step-0 fluxes change from %r to %r when %s is multiplied by %r" % (
                        base["J"][0], j3, name, k)))
                    break
            if v:
                break
    n = base["n"] if base else 0
    return core.result("returned" if base else "raised", nontrivial=twins > 0,
                       digest=traces.trace_digest(base) if base else core.digest_of(case), viol=v,
                       states=n * (1 + twins), transitions=max(n - 1, 0) * (1 + twins), traces=1 + twins, twins=twins,
                       sample={"m": base["m"][:3], "twins": twins} if base else None)


def process_spaces(tier, seed):
    q = tier == "quick"
    ideal = {
        "kind": ["ideal_iso", "ideal_noniso"], "mixture": ["H2O_EtOH", "S2"] if q else ["H2O_EtOH", "MeOH_DMC", "S1", "S2", "S4"],
        "model": ["NRTL", "UNIQUAC"], "mode": ["vac", ("T", -20.0), ("p", 0.5)], "prog": ["none", "poly", "log"],
        "area": [0.05, 1.0], "amount": [0.047, 50.0], "dt": core.lat([0.1, 2.0], seed), "steps": [1, 4] if q else [1, 3, 8],
        "x0": core.lat([0.1, 0.9], seed) if q else core.lat([0.1, 0.45, 0.9], seed), "basis": ["weight", "molar"],
        "T": core.lat([313.15, 353.15], seed)[:1] if q else core.lat([313.15, 353.15], seed),
        "P": [(1e-3, 2e-5)], "tref_offset": [0.0, -12.0],
    }
    non = {
        "kind": ["nonideal_iso", "nonideal_noniso"], "mixture": ["H2O_EtOH", "S2"], "model": ["NRTL", "UNIQUAC"] if not q else ["NRTL"],
        "mode": ["vac", ("T", -20.0), ("p", 0.5)], "prog": ["none", "poly"],
        "curves": [spaces.CURVE_CONFIGS["one"], spaces.CURVE_CONFIGS["two"]], "init_perm": [None, {"values": (2.5e-2, 3.0e-5)}],
        "area": [0.05, 1.0], "amount": [0.047, 50.0], "dt": core.lat([0.1, 2.0], seed), "steps": [1, 4] if q else [1, 3, 8],
        "x0": core.lat([0.1, 0.45], seed), "basis": ["weight"] if q else ["weight", "molar"], "T": [333.15, 318.15],
    }

    def ok(c):
        return U.has_model(U.get_mixture(c["mixture"]), c["model"]) and not (c["kind"] in traces.ISO and c["prog"] != "none")

    return [core.Space("ideal_scaling", ideal, ok), core.Space("nonideal_scaling", non, ok)]


def main(tier, seed):
    rep = core.Report(
        ID, "model_checking", tier, seed,
        rule="every run of the finite process lattice is compared state by state with its size-scaled twins (7 factors), its "
             "area/time twins (7 factors, no programme) and 9 single-factor step-0 twins; non-trivial = at least one twin pair "
             "compared; distinct = distinct base-trace digest",
        assumptions=["power-of-two factors: bit-identical (exact arithmetic); other factors: 1e-9 x steps in vacuum, 50 x precision otherwise",
                     "find_best_fit memoised (deep copies)"],
        technique="explicit-state simulation relation between the trace of a run and the traces of its scaled twins, exhaustive over a finite lattice")
    U.install_fit_memo()
    for sp in process_spaces(tier, seed):
        spaces.prewarm(sp)
        core.run_space(rep, sp, judge)
    return rep.finish()


def replay(body):
    U.install_fit_memo()
    r = judge(body["case"])
    for v in r["viol"]:
        print("violation key=%s: %s" % (v["key"], v["msg"]))
    print("replayed: outcome=%s violations=%d" % (r["outcome"], len(r["viol"])))
    return 1 if r["viol"] else 0
