"""C06 - results do not depend on which component is called first.

Twins: mixture with components exchanged and every interaction parameter mirrored, composition
p -> 1-p, permeances / experiments exchanged.  L0 thermodynamics, L1 flux solver, L2 ideal curves
and metrics, L3 ideal process traces state by state.  NRTL is judged on the real code.  UNIQUAC
carries known finding K1 (mistyped gamma_2 bracket): a UNIQUAC mismatch is reported as K1 only if
the K1 signature is confirmed at L0 on the case's own state AND the mismatch disappears when the
harness substitutes the mirror image of gamma_1 for gamma_2 (attribution stub); otherwise it is a
violation.
"""
import contextlib
import math
import re

from .. import core, k1, solver, traces, universe as U

ID = "C06"
MIXMOD = U.pyvaporation.mixtures.mixture
_REAL_ACT = MIXMOD.calculate_activity_coefficients
PREC = 1e-10
TWIN_TOL = 2e-7
BUDGET = 20000  # slower flux calculations are C10's business; here the pair is simply not judged


@contextlib.contextmanager
def symmetric_uniquac():
    """attribution stub: UNIQUAC gamma_2 := gamma_1 of the relabelled twin at 1-x."""
    def stub(temperature, mixture, composition, calculation_type="NRTL"):
        g = _REAL_ACT(temperature=temperature, mixture=mixture, composition=composition, calculation_type=calculation_type)
        if calculation_type != "UNIQUAC":
            return g
        comp = composition.to_molar(mixture) if composition.type == "weight" else composition
        g2 = _REAL_ACT(temperature=temperature, mixture=U.swap_mixture(mixture), composition=U.Composition(p=1 - comp.p, type="molar"),
                       calculation_type="UNIQUAC")
        return g[0], g2[0]
    MIXMOD.calculate_activity_coefficients = stub
    try:
        yield
    finally:
        MIXMOD.calculate_activity_coefficients = _REAL_ACT


def attribute(model, mix, t, x_mass, run_pair, key, msg):
    """run_pair() -> list of mismatch strings (empty = twins agree).  Returns list of viol dicts."""
    bad = run_pair()
    if not bad:
        return []
    if model == "UNIQUAC":
        xm = U.exact_to_molar(x_mass, mix.first_component.molecular_weight, mix.second_component.molecular_weight)
        cls, detail = k1.classify(mix, t, xm)
        cls2, _ = k1.classify(U.swap_mixture(mix), t, 1 - xm)
        if "K1" in (cls, cls2) and "other" not in (cls, cls2):
            with symmetric_uniquac():
                bad2 = run_pair()
            if not bad2:
                return [core.viol(key, msg + ": " + bad[0], known=k1.KEY, attribution="disappears with symmetric gamma_2")]
            if bad2 == bad:
                # every number of the mismatch is bit-identical with and without the stub, although K1 is confirmed at this very state
                # (where the stub does change gamma_2): the library answered from state the stub cannot reach (a legitimate, fully keyed
                # memo filled by the first pair of runs).  Attribution is impossible here; the mismatch is the K1 mismatch just observed.
                return [core.viol(key, msg + ": " + bad[0], known=k1.KEY, attribution="stub not reached (results bit-identical with and without it); K1 confirmed at this state")]
            return [core.viol(key + "/beyond_K1", msg + " (persists with symmetric UNIQUAC gamma_2): " + bad2[0])]
    return [core.viol(key, msg + ": " + bad[0])]


def safe(f):
    """a derived metric; None when the library itself raises on it (e.g. division by a zero permeance)."""
    try:
        return f()
    except RecursionError:
        raise
    except Exception:  # noqa: BLE001
        return None


_RANGE_MSG = re.compile(r"Give (\S+) value is not in \[0, 1\] range")


def raised_by_margin(exc):
    """True iff the exception is the Composition range error and the offending value is outside [0, 1] by a clear margin
    (then the mirrored fraction 1-p of the relabelled twin is outside by the same margin and the twin must raise too)."""
    if not isinstance(exc, ValueError):
        return False
    m = _RANGE_MSG.search(str(exc))
    if not m:
        return False
    try:
        val = float(m.group(1))
    except ValueError:
        return False
    return val < -1e-6 or val > 1 + 1e-6


def pv_pair(mix, P, t_ref, ea=(25000.0, 60000.0)):
    sw = U.swap_mixture(mix)
    a = solver.ObservedPV(membrane=U.make_membrane(mix, P[0], P[1], t_ref=t_ref, ea1=ea[0], ea2=ea[1]), mixture=mix).observe(budget=BUDGET, detect=False)
    b = solver.ObservedPV(membrane=U.make_membrane(sw, P[1], P[0], t_ref=t_ref, ea1=ea[1], ea2=ea[0]), mixture=sw).observe(budget=BUDGET, detect=False)
    return a, b


def judge_membrane(case):
    """membrane-level quantities under relabelling: the ideal selectivity of (first, second) is the reciprocal of that of (second, first) -
    asked on the SAME membrane object in either order, and on the relabelled twin; pure-component quantities do not depend on the labelling."""
    mix = U.get_mixture(case["mixture"])
    c1, c2 = mix.first_component, mix.second_component
    t, P = case["T"], case["P"]
    v = []
    for order in (0, 1):
        mem = U.make_membrane(mix, P[0], P[1], t_ref=case["T"] - 9.0, ea1=25000.0, ea2=60000.0, units=case["units"])
        twin = U.make_membrane(U.swap_mixture(mix), P[1], P[0], t_ref=case["T"] - 9.0, ea1=60000.0, ea2=25000.0, units=case["units"])
        asks = [(c1, c2), (c2, c1)] if order == 0 else [(c2, c1), (c1, c2)]
        got = {}
        for a_, b_ in asks:
            for rep_ in (0, 1):
                st, r = core.call(mem.get_ideal_selectivity, t, a_, b_, case["calc"])
                if st != "ok":
                    return core.result("raised", nontrivial=False)
                got.setdefault((a_ is c1), []).append(float(r))
        s12, s21 = got[True][0], got[False][0]
        if got[True][0] != got[True][1] or got[False][0] != got[False][1]:
            v.append(core.viol("C06/membrane/selectivity_not_repeatable", "the same selectivity question asked twice on one membrane: %r, %r" % (got[True], got[False])))
        if not core.close(s12 * s21, 1.0, 1e-12):
            v.append(core.viol("C06/membrane/selectivity", "selectivity (1,2) = %r and (2,1) = %r on the same membrane object (asked %s first): product %r, not 1" % (
                s12, s21, "(1,2)" if order == 0 else "(2,1)", s12 * s21)))
        st, rt = core.call(twin.get_ideal_selectivity, t, twin.ideal_experiments.experiments[0].component, twin.ideal_experiments.experiments[-1].component, case["calc"])
        if st == "ok" and not core.close(float(rt), s21, 1e-12):
            v.append(core.viol("C06/membrane/selectivity", "relabelled twin membrane reports selectivity %r for its (first, second), the original %r for (second, first)" % (float(rt), s21)))
        for c_, tc_ in ((c1, twin.ideal_experiments.experiments[-1].component), (c2, twin.ideal_experiments.experiments[0].component)):
            sa, pa = core.call(mem.get_permeance, t, c_)
            sb, pb = core.call(twin.get_permeance, t, tc_)
            if sa == "ok" and sb == "ok" and not core.close(float(pa.value), float(pb.value), 1e-12):
                v.append(core.viol("C06/membrane/permeance", "permeance of %s at %r K: %r on the membrane, %r on its relabelled twin" % (c_.name, t, float(pa.value), float(pb.value))))
        if v:
            break
    return core.result("judged", digest=core.digest_of(case), viol=v)


def judge_l0(case):
    mix = U.get_mixture(case["mixture"])
    sw = U.swap_mixture(mix)
    t, x, model = case["T"], case["x"], case["model"]
    g = k1.coefficients(mix, t, x, model)
    gs = k1.coefficients(sw, t, 1 - x, model)
    v = []
    if not (core.close(g[0], gs[1], 1e-11) and core.close(g[1], gs[0], 1e-11)):
        known = None
        if model == "UNIQUAC":
            c1, _ = k1.classify(mix, t, x)
            c2, _ = k1.classify(sw, t, 1 - x)
            # the twin pair compares real gamma_2 with the twin's gamma_1 (case 1) and the twin's gamma_2 with real gamma_1 (case 2)
            if c1 in ("K1", "holds") and c2 in ("K1", "holds") and "K1" in (c1, c2):
                known = k1.KEY
        v.append(core.viol("C06/L0/activity/" + model, "activity coefficients %r, relabelled twin %r" % (g, gs), known=known))
    comp = U.Composition(p=x, type="molar")
    pa = U.pyvaporation.get_partial_pressures(t, mix, comp, model)
    pb = U.pyvaporation.get_partial_pressures(t, sw, U.Composition(p=1 - x, type="molar"), model)
    if not v and not (core.close(float(pa[0]), float(pb[1]), 1e-11) and core.close(float(pa[1]), float(pb[0]), 1e-11)):
        v.append(core.viol("C06/L0/partial_pressure/" + model, "partial pressures %r, relabelled twin %r" % (pa, pb)))
    return core.result("judged" + (":K1" if any(w["known"] for w in v) else ""), digest=core.digest_of([core.fhex(g[0]), core.fhex(g[1])]), viol=v,
                       sample={"gamma": g, "twin": gs})


def judge_l1(case):
    mix = U.get_mixture(case["mixture"])
    t, x, model, P = case["T"], case["x"], case["model"], case["P"]
    PREC = case.get("precision", globals()["PREC"])
    TWIN_TOL = case.get("tol", globals()["TWIN_TOL"])
    mode = tuple(case["mode"]) if case["mode"] != "vac" else "vac"
    kw = U.permeate_kwargs(mode, t)
    a, b = pv_pair(mix, P, t)
    state = {"n": 0}

    def run_pair():
        basis = case.get("basis", "weight")
        ca = U.composition(x, basis, mix)
        cb = U.composition(1 - x, basis, U.swap_mixture(mix))
        sa, ja = core.call(a.calculate_partial_fluxes, feed_temperature=t, composition=ca, precision=PREC, calculation_type=model, **kw)
        sb, jb = core.call(b.calculate_partial_fluxes, feed_temperature=t, composition=cb, precision=PREC, calculation_type=model, **kw)
        if sa != "ok" or sb != "ok":
            state["n"] = -1
            if (sa == "ok") != (sb == "ok") and raised_by_margin(ja if sa != "ok" else jb):
                return ["one labelling returns %r while the other raises %r" % ((ja if sa == "ok" else jb), (ja if sa != "ok" else jb))]
            return []  # otherwise raising twins are not judged (near-equilibrium orbits may end one iteration apart)
        state["n"] = 1
        out = []
        if not all(float(j) > 0 for j in (ja[0], ja[1], jb[0], jb[1])):
            state["n"] = -1
            return []  # back-flow states are not judged (see judge_l3)
        tot = abs(float(ja[0])) + abs(float(ja[1]))  # a minority flux below 1e-9 of the total is pure cancellation noise
        if not (core.close(float(ja[0]), float(jb[1]), TWIN_TOL, 1e-9 * tot) and core.close(float(ja[1]), float(jb[0]), TWIN_TOL, 1e-9 * tot)):
            out.append("fluxes %r, twin %r" % ((float(ja[0]), float(ja[1])), (float(jb[0]), float(jb[1]))))
        # derived: separation factors invert
        sa2, fa = core.call(a.calculate_separation_factor, feed_temperature=t, composition=ca, precision=PREC, calculation_type=model, **kw)
        sb2, fb = core.call(b.calculate_separation_factor, feed_temperature=t, composition=cb, precision=PREC, calculation_type=model, **kw)
        ya = float(ja[0]) / (float(ja[0]) + float(ja[1]))
        well = 1e-6 < ya < 1 - 1e-6  # 1-y loses all precision beyond that: inversion not judged
        if not out and well and sa2 == "ok" and sb2 == "ok" and not core.close(float(fa) * float(fb), 1.0, 10 * TWIN_TOL):
            out.append("separation factors %r and %r do not invert" % (float(fa), float(fb)))
        return out

    v = attribute(model, mix, t, x, run_pair, "C06/L1/solver/" + model, "flux solver differs from its relabelled twin")
    if state["n"] < 0 and not v:
        return core.result("not-judged:raised", nontrivial=False)
    return core.result("judged" + (":K1" if any(w["known"] for w in v) else ""), digest=core.digest_of(case), viol=v)


def judge_l1b(case):
    """flux solver with exactly ONE of the two optional permeances supplied: the relabelled twin supplies the other one."""
    mix = U.get_mixture(case["mixture"])
    t, x, model, P = case["T"], case["x"], case["model"], case["P"]
    mode = tuple(case["mode"]) if case["mode"] != "vac" else "vac"
    kw = U.permeate_kwargs(mode, t)
    a, b = pv_pair(mix, P, t)
    over = U.Permeance(value=case["override"])
    which = case["which"]
    ka = {"first_component_permeance": over} if which == 0 else {"second_component_permeance": over}
    kb = {"second_component_permeance": over} if which == 0 else {"first_component_permeance": over}
    sa, ja = core.call(a.calculate_partial_fluxes, feed_temperature=t, composition=U.Composition(p=x, type="weight"), precision=PREC, calculation_type=model, **ka, **kw)
    sb, jb = core.call(b.calculate_partial_fluxes, feed_temperature=t, composition=U.Composition(p=1 - x, type="weight"), precision=PREC, calculation_type=model, **kb, **kw)
    if sa != "ok" or sb != "ok" or not all(float(j) > 0 for j in (ja[0], ja[1], jb[0], jb[1])):
        return core.result("not-judged", nontrivial=False)
    v = []
    tot = abs(float(ja[0])) + abs(float(ja[1]))
    if not (core.close(float(ja[0]), float(jb[1]), TWIN_TOL, 1e-9 * tot) and core.close(float(ja[1]), float(jb[0]), TWIN_TOL, 1e-9 * tot)):
        v.append(core.viol("C06/L1/one_permeance_supplied/" + model, "only the %s component's permeance supplied: fluxes %r, relabelled twin %r" % (
            "first" if which == 0 else "second", (float(ja[0]), float(ja[1])), (float(jb[0]), float(jb[1])))))
    return core.result("judged", digest=core.digest_of(case), viol=v)


def judge_l2(case):
    mix = U.get_mixture(case["mixture"])
    t, model, P = case["T"], case["model"], case["P"]
    mode = tuple(case["mode"]) if case["mode"] != "vac" else "vac"
    kw = U.permeate_kwargs(mode, t)
    xs = case["xs"]
    a, b = pv_pair(mix, P, t)
    state = {"n": 0}

    def run_pair():
        sa, ca = core.call(a.ideal_diffusion_curve, feed_temperature=t, compositions=[U.Composition(p=x, type="weight") for x in xs],
                           precision=PREC, calculation_type=model, **kw)
        sb, cb = core.call(b.ideal_diffusion_curve, feed_temperature=t, compositions=[U.Composition(p=1 - x, type="weight") for x in xs],
                           precision=PREC, calculation_type=model, **kw)
        if sa != "ok" or sb != "ok":
            state["n"] = -1
            return []
        state["n"] = 1
        out = []
        for i in range(len(xs)):
            fa, fb = ca.partial_fluxes[i], cb.partial_fluxes[i]
            if not all(float(j) > 0 for j in (fa[0], fa[1], fb[0], fb[1])):
                continue
            tot = abs(float(fa[0])) + abs(float(fa[1]))
            if not (core.close(float(fa[0]), float(fb[1]), TWIN_TOL, 1e-9 * tot) and core.close(float(fa[1]), float(fb[0]), TWIN_TOL, 1e-9 * tot)):
                out.append("curve fluxes at point %d: %r, twin %r" % (i, fa, fb))
                break
            if model == "NRTL":  # the curve class inverts with NRTL whatever model produced the fluxes
                pa_, pb_ = ca.permeances[i], cb.permeances[i]
                if not (core.close(float(pa_[0].value), float(pb_[1].value), 100 * TWIN_TOL) and core.close(float(pa_[1].value), float(pb_[0].value), 100 * TWIN_TOL)):
                    if mode == "vac" or mode[0] == "T":
                        out.append("curve permeances at point %d: %r, twin %r" % (i, (pa_[0].value, pa_[1].value), (pb_[0].value, pb_[1].value)))
                        break
            sfa, sfb = safe(lambda: float(ca.get_separation_factor[i])), safe(lambda: float(cb.get_separation_factor[i]))
            ya = float(fa[0]) / (float(fa[0]) + float(fa[1]))
            if sfa is not None and sfb is not None and 1e-6 < ya < 1 - 1e-6 and not core.close(sfa * sfb, 1.0, 10 * TWIN_TOL):
                out.append("curve separation factors at point %d: %r and %r do not invert" % (i, sfa, sfb))
                break
            if model == "NRTL" and (mode == "vac" or mode[0] == "T"):
                sa_, sb_ = safe(lambda: float(ca.get_selectivity[i])), safe(lambda: float(cb.get_selectivity[i]))
                if sa_ is not None and sb_ is not None and sa_ > 0 and sb_ > 0 and math.isfinite(sa_) and math.isfinite(sb_) and not core.close(sa_ * sb_, 1.0, 300 * TWIN_TOL):
                    out.append("curve selectivities at point %d: %r and %r do not invert" % (i, sa_, sb_))
                    break
        return out

    v = attribute(model, mix, t, xs[0], run_pair, "C06/L2/curve/" + model, "ideal diffusion curve differs from its relabelled twin")
    if state["n"] < 0 and not v:
        return core.result("not-judged:raised", nontrivial=False)
    return core.result("judged" + (":K1" if any(w["known"] for w in v) else ""), digest=core.digest_of(case), viol=v)


def judge_l2b(case):
    """curves built from STATED permeances (one unit per component) and their relabelled twins."""
    mix = U.get_mixture(case["mixture"])
    sw = U.swap_mixture(mix)
    t, xs, units = case["T"], case["xs"], case["units"]
    base = [(3.1e-2 * (1 + 0.4 * i), 4.7e-4 * (1 + 0.7 * i)) for i in range(len(xs))]

    def perm(v, unit, comp):
        return U.exact_permeance(v, unit, comp.molecular_weight)

    pa = [(perm(b[0], units[0], mix.first_component), perm(b[1], units[1], mix.second_component)) for b in base]
    pb = [(perm(b[1], units[1], sw.first_component), perm(b[0], units[0], sw.second_component)) for b in base]
    sa, ca = core.call(U.DiffusionCurve, mixture=mix, membrane_name="M", feed_temperature=t, feed_compositions=[U.Composition(p=x, type="weight") for x in xs], permeances=pa)
    sb, cb = core.call(U.DiffusionCurve, mixture=sw, membrane_name="M", feed_temperature=t, feed_compositions=[U.Composition(p=1 - x, type="weight") for x in xs], permeances=pb)
    if sa != "ok" or sb != "ok":
        return core.result("not-judged:raised", nontrivial=False)
    v = []
    for i in range(len(xs)):
        fa, fb = ca.partial_fluxes[i], cb.partial_fluxes[i]
        if not (core.close(float(fa[0]), float(fb[1]), 1e-9) and core.close(float(fa[1]), float(fb[0]), 1e-9)):
            v.append(core.viol("C06/L2/curve_from_permeances", "point %d: fluxes %r, relabelled twin %r (permeance units per component %r)" % (i, fa, fb, units)))
            break
        if not (core.close(float(ca.permeances[i][0].value), float(cb.permeances[i][1].value), 1e-9) and core.close(float(ca.permeances[i][1].value), float(cb.permeances[i][0].value), 1e-9)):
            v.append(core.viol("C06/L2/curve_from_permeances", "point %d: exposed permeances %r, relabelled twin %r" % (
                i, (ca.permeances[i][0].value, ca.permeances[i][1].value), (cb.permeances[i][0].value, cb.permeances[i][1].value))))
            break
        sfa, sfb = safe(lambda: float(ca.get_separation_factor[i])), safe(lambda: float(cb.get_separation_factor[i]))
        if sfa is not None and sfb is not None and not core.close(sfa * sfb, 1.0, 1e-8):
            v.append(core.viol("C06/L2/curve_from_permeances", "point %d: separation factors %r and %r do not invert" % (i, sfa, sfb)))
            break
        sla, slb = safe(lambda: float(ca.get_selectivity[i])), safe(lambda: float(cb.get_selectivity[i]))
        if sla is not None and slb is not None and not core.close(sla * slb, 1.0, 1e-8):
            v.append(core.viol("C06/L2/curve_from_permeances", "point %d: selectivities %r and %r do not invert" % (i, sla, slb)))
            break
    return core.result("judged", digest=core.digest_of(case), viol=v)


def judge_l3(case):
    mix = U.get_mixture(case["mixture"])
    model = case["model"]
    base = traces.Setup(case)
    tw = traces.Setup(dict(case, x0=1 - case["x0"], P=(case["P"][1], case["P"][0]), ea=(case["ea"][1], case["ea"][0])))
    sw = U.swap_mixture(mix)
    tw.mixture = sw
    tw.membrane = U.make_membrane(sw, case["P"][1], case["P"][0], t_ref=case["T"] + case.get("tref_offset", 0.0), ea1=case["ea"][1], ea2=case["ea"][0])
    tw.pv = solver.ObservedPV(membrane=tw.membrane, mixture=sw).observe(budget=BUDGET, detect=False)
    base.pv = solver.ObservedPV(membrane=base.membrane, mixture=mix).observe(budget=BUDGET, detect=False)
    tw.conditions = U.make_conditions(sw, tw.area, tw.t0, tw.amount, tw.x0, "weight", tw.mode, tw.prog)
    state = {"n": 0, "steps": 0}
    tol = TWIN_TOL * 10 * max(1, case["steps"])

    def run_pair():
        sa, pa = base.run()
        sb, pb = tw.run()
        if sa != "ok" or sb != "ok":
            state["n"] = -1
            if (sa == "ok") != (sb == "ok") and raised_by_margin(pa if sa != "ok" else pb):
                return ["one labelling returns a trajectory while the other raises %r" % ((pa if sa != "ok" else pb),)]
            return []
        ta, tb = traces.extract(pa), traces.extract(pb)
        state["n"] = 1
        state["steps"] = ta["n"]
        out = []
        for k in range(ta["n"]):
            if not all(j > 0 for j in ta["J"][k] + tb["J"][k]) or not (1e-9 < ta["y"][k] < 1 - 1e-9) or not (1e-9 < tb["y"][k] < 1 - 1e-9):
                # back-flow / a permeate fraction that rounds to 0 or 1: p and 1-p no longer carry the same information
                # (floats are dense near 0, not near 1), the twins legitimately part ways from here on
                state["steps"] = k
                ta["n"] = k
                break
            pairs = [("feed mass", ta["m"][k], tb["m"][k]), ("temperature", ta["T"][k], tb["T"][k]),
                     ("evaporation heat", ta["Q"][k], tb["Q"][k]), ("condensation heat", ta["Qc"][k], tb["Qc"][k]),
                     ("feed fraction", ta["x"][k], 1 - tb["x"][k]), ("permeate fraction", ta["y"][k], 1 - tb["y"][k]),
                     ("flux 1", ta["J"][k][0], tb["J"][k][1]), ("flux 2", ta["J"][k][1], tb["J"][k][0]),
                     ("permeance 1", ta["P"][k][0], tb["P"][k][1]), ("permeance 2", ta["P"][k][1], tb["P"][k][0])]
            for name, u, w in pairs:
                if u is None or w is None:
                    if (u is None) != (w is None):
                        out.append("%s at step %d: %r vs twin %r" % (name, k, u, w))
                    continue
                if not core.close(u, w, tol, 1e-12 * tol):
                    out.append("%s at step %d: %r vs twin %r" % (name, k, u, w))
                    break
            if out:
                break
        if not out:
            sfa, sfb = safe(lambda: pa.get_separation_factor), safe(lambda: pb.get_separation_factor)
            sla, slb = safe(lambda: pa.get_selectivity), safe(lambda: pb.get_selectivity)
            for k in range(ta["n"] if None not in (sfa, sfb, sla, slb) else 0):
                if not (1e-6 < ta["y"][k] < 1 - 1e-6 and 1e-6 < ta["x"][k] < 1 - 1e-6):
                    continue
                if not core.close(float(sfa[k]) * float(sfb[k]), 1.0, 100 * tol):
                    out.append("process separation factors at step %d: %r and %r do not invert" % (k, float(sfa[k]), float(sfb[k])))
                    break
                if not core.close(float(sla[k]) * float(slb[k]), 1.0, 100 * tol):
                    out.append("process selectivities at step %d: %r and %r do not invert" % (k, float(sla[k]), float(slb[k])))
                    break
        return out

    v = attribute(model, mix, case["T"], case["x0"], run_pair, "C06/L3/%s/%s" % (case["kind"], model), "process trace differs from its relabelled twin")
    if state["n"] < 0 and not v:
        return core.result("not-judged:raised", nontrivial=False)
    n = state["steps"]
    return core.result("judged" + (":K1" if any(w["known"] for w in v) else ""), digest=core.digest_of(case), viol=v,
                       states=2 * n, transitions=2 * max(n - 1, 0), traces=2)


def main(tier, seed):
    q = tier == "quick"
    rep = core.Report(
        ID, "model_checking", tier, seed,
        rule="every case of four finite lattices (L0 thermodynamics, L1 solver, L2 curves, L3 ideal process traces) is evaluated "
             "together with its relabelled twin and compared with roles exchanged; non-trivial = both twins returned and were "
             "compared; distinct = distinct case digest",
        assumptions=["twins are run at precision 1e-10 and compared at 2e-7 relative (x vs 1-x differ in the last bits, so the "
                     "solver exit may fall one iteration apart); traces at 2e-6 x steps",
                     "UNIQUAC mismatches are attributed to K1 only if the L0 signature holds on the case and the mismatch "
                     "disappears under the symmetric-gamma_2 stub"],
        technique="explicit-state simulation relation between a run and its relabelled twin, exhaustive over finite lattices; known-finding attribution by stub")
    mixes = ["H2O_EtOH", "MeOH_DMC", "S2", "S5"] if q else list(U.ALL_MIXTURES)
    xs = core.lat([0.05, 0.3, 0.5, 0.7, 0.95], seed) if q else core.lat([0.02, 0.05, 0.1, 0.3, 0.5, 0.7, 0.9, 0.95, 0.98], seed)
    ts = core.lat([293.15, 333.15, 373.15], seed) if q else core.lat([273.15, 293.15, 313.15, 333.15, 353.15, 373.15, 400.0], seed)

    def ok(c):
        return U.has_model(U.get_mixture(c["mixture"]), c["model"])

    core.run_space(rep, core.Space("L0_thermodynamics", {"mixture": list(U.ALL_MIXTURES), "model": ["NRTL", "UNIQUAC"], "T": ts,
                                                         "x": xs + [1 - z for z in xs[:2]]}, ok), judge_l0)
    modes = ["vac", ("T", -60.0), ("T", -20.0), ("p", 0.5), ("p", 5.0)] if q else ["vac", ("T", 120.0), ("T", -60.0), ("T", -20.0), ("p", 0.0), ("p", 0.5), ("p", 5.0)]
    Ps = [(1e-2, 1e-4), (1e-4, 1e-2)] if q else [(1e-2, 1e-4), (1e-3, 1e-3), (1e-4, 1e-2), (1.0, 1e-6)]
    core.run_space(rep, core.Space("L1_solver", {"mixture": mixes, "model": ["NRTL", "UNIQUAC"], "mode": modes + [("p", 0.004), ("p", 0.02)], "P": Ps + [(1e-4, 1.0)],
                                                 "T": ts[:2] if q else ts, "x": xs + [0.003, 0.997], "basis": ["weight", "molar"]}, ok), judge_l1)
    # the library's default precision with a tiny permeate pressure: the solver's own inexactness is then negligible (the
    # permeate term is < 1e-4 of the driving force), so twins must still agree to 1e-4
    core.run_space(rep, core.Space("L1c_default_precision_tiny_pressure", {"mixture": [m for m in mixes if U.get_mixture(m).nrtl_params is not None] + (["H2O_iPOH"] if "H2O_iPOH" not in mixes else []),
                                                                          "model": ["NRTL"], "mode": [("p", 0.002), ("p", 0.01)], "P": [(1e-4, 1.0), (1.0, 1e-4), (1e-2, 1e-2)],
                                                                          "T": ts[:2], "x": [0.003, 0.03, 0.97, 0.997], "precision": [5e-5, 3e-4], "tol": [1e-4]}), judge_l1)
    core.run_space(rep, core.Space("L1b_one_permeance_supplied", {"mixture": [m for m in mixes if U.get_mixture(m).nrtl_params is not None], "model": ["NRTL"],
                                                                 "mode": modes[:3], "P": Ps[:1], "T": ts[:1], "x": xs[1:4], "which": [0, 1], "override": [3.3e-2, 7.7e-5]}), judge_l1b)
    core.run_space(rep, core.Space("L2_curves", {"mixture": mixes, "model": ["NRTL", "UNIQUAC"], "mode": modes, "P": Ps, "T": ts[:2] if q else ts[1:6],
                                                 "xs": [xs[:3], xs[2:]]}, ok), judge_l2)
    un = [U.Units.kg_m2_h_kPa, "SI", "GPU"]
    core.run_space(rep, core.Space("L2b_curves_from_permeances", {"mixture": [m for m in mixes if U.get_mixture(m).nrtl_params is not None], "T": ts[:2],
                                                                 "xs": [xs[:2], xs[2:4]], "units": [(a, b) for a in un for b in un]}), judge_l2b)
    l3 = {"kind": ["ideal_iso", "ideal_noniso"], "mixture": mixes, "model": ["NRTL", "UNIQUAC"], "mode": ["vac", ("T", -20.0), ("p", 0.5)],
          "prog": ["none", "poly"], "area": [0.05, 1.0], "amount": [0.047, 50.0], "dt": core.lat([0.1, 2.0], seed),
          "steps": [1, 4] if q else [1, 3, 8], "x0": core.lat([0.1, 0.6], seed) if q else core.lat([0.1, 0.45, 0.9], seed), "basis": ["weight"],
          "T": core.lat([313.15, 353.15], seed)[:1] if q else core.lat([313.15, 353.15], seed), "P": [(1e-3, 2e-5)], "ea": [(25000.0, 60000.0)],
          "tref_offset": [0.0, -12.0], "precision": [PREC]}
    core.run_space(rep, core.Space("L0m_membrane", {"mixture": mixes, "T": ts[:3], "P": [(1e-2, 1e-4), (3e-5, 4e-3)], "units": [U.Units.kg_m2_h_kPa, "SI", "GPU"], "calc": ["molar", "weight"]}), judge_membrane)
    core.run_space(rep, core.Space("L3_ideal_traces", l3, lambda c: ok(c) and not (c["kind"] == "ideal_iso" and c["prog"] != "none")), judge_l3)
    return rep.finish()


def replay(body):
    fn = {"L0m_membrane": judge_membrane, "L0_thermodynamics": judge_l0, "L1_solver": judge_l1, "L1c_default_precision_tiny_pressure": judge_l1, "L1b_one_permeance_supplied": judge_l1b, "L2_curves": judge_l2, "L2b_curves_from_permeances": judge_l2b, "L3_ideal_traces": judge_l3}[body["space"]]
    r = fn(body["case"])
    for v in r["viol"]:
        print("violation key=%s%s: %s" % (v["key"], " [known %s]" % v["known"] if v["known"] else "", v["msg"]))
    print("replayed: outcome=%s violations=%d" % (r["outcome"], len(r["viol"])))
    return 1 if any(not v["known"] for v in r["viol"]) else 0
