"""C01 - process models conserve total and per-component mass on a regular time grid.

E2: every process run of a finite configuration lattice is read as a trace; every transition is
compared with the reference stepper (ULP class); shape/initial-state/time-grid per trace; a raising
run must be justified by the reference stepper driven by the real solver; ideal runs are restarted
from their own non-initial states (differential, BIT class).
"""
from .. import core, traces, universe as U
from . import spaces

ID = "C01"


def judge(case):
    setup = traces.Setup(case)
    st, pm = setup.run()
    if st == "raise" and traces.is_slow(pm):
        return core.result("not-judged:slow-flux-calculation", nontrivial=False)
    if st == "raise":
        verdict, why, j = traces.justify_raise(setup, pm)
        if verdict == "unjustified":
            return core.result("raised-unjustified", viol=[core.viol("C01/spurious_raise/" + setup.kind, why, exc=repr(pm))])
        return core.result("raised-" + verdict, nontrivial=(verdict == "justified"), digest=None,
                           traces=1, sample={"raise": repr(pm), "why": why})
    try:
        tr = traces.extract(pm)
    except Exception as e:  # noqa: BLE001
        return core.result("malformed", viol=[core.viol("C01/malformed_result/" + setup.kind, "returned model cannot be read: %r" % (e,))])
    v = traces.check_shape(setup, tr)
    if not v:
        v = traces.check_mass(setup, tr)
    restarts = 0
    if not v and setup.kind in traces.IDEAL and setup.prog == "none":
        for k in range(1, min(tr["n"], 4)):
            if not traces.admissible_state(tr["m"][k], tr["x"][k], tr["T"][k]):
                break  # C18's business
            sub = dict(case, x0=tr["x"][k], amount=tr["m"][k], T=tr["T"][k], steps=2, basis="weight",
                       tref_abs=case.get("tref_abs", case["T"] + case.get("tref_offset", 0.0)))
            if isinstance(case["mode"], (list, tuple)) and case["mode"][0] == "T" and case["mode"][1] <= 0:
                sub["mode"] = ("T", case["T"] + case["mode"][1])  # keep the absolute permeate temperature
                if sub["mode"][1] <= 0:
                    continue
            s2 = traces.Setup(sub)
            st2, pm2 = s2.run()
            if st2 != "ok":
                if k + 1 < tr["n"]:
                    v.append(core.viol("C01/restart_raises/" + setup.kind, "restart from reported state %d raises %r although the original run continued" % (k, pm2)))
                break
            t2 = traces.extract(pm2)
            restarts += 1
            same = core.bit_eq(t2["J"][0][0], tr["J"][k][0]) and core.bit_eq(t2["J"][0][1], tr["J"][k][1])
            if same and k + 1 < tr["n"]:
                same = (core.bit_eq(t2["m"][1], tr["m"][k + 1]) and core.bit_eq(t2["x"][1], tr["x"][k + 1])
                        and core.bit_eq(t2["T"][1], tr["T"][k + 1]))
            if not same:
                v.append(core.viol("C01/restart_differs/" + setup.kind,
                                   "transition %d of the run differs from the first transition of a run restarted at state %d" % (k, k),
                                   original=[tr["J"][k], tr["m"][k + 1] if k + 1 < tr["n"] else None],
                                   restarted=[t2["J"][0], t2["m"][1]]))
                break
    # the same Pervaporation / membrane objects used for a different run first (other area, step, feed, mode) must then
    # reproduce this run bit for bit (guards against per-object state keyed too coarsely); done on the longest runs only
    if not v and setup.steps >= 6:
        s3 = traces.Setup(case)
        warm = traces.U.make_conditions(s3.mixture, s3.area * 3.0, s3.t0, s3.amount * 0.5, min(0.97, s3.x0 * 1.07 + 0.01), "weight",
                                        "vac" if s3.mode != "vac" else ("p", 0.3), "none" if s3.kind in traces.ISO else s3.prog)
        s3.run(steps=2, conditions=warm, dt=s3.dt * 0.5)
        # ... and the caller's Conditions object itself is first handed to a model of ANOTHER mixture
        s4 = traces.Setup(dict(case, mixture="H2O_iPOH" if case["mixture"] != "H2O_iPOH" else "MeOH_DMC", model="NRTL"))
        s4.run(steps=1, conditions=s3.conditions)
        st3, pm3 = s3.run()
        if st3 != "ok":
            v.append(core.viol("C01/depends_on_earlier_run/" + setup.kind, "the run returns on fresh objects but raises %r when the same objects modelled another run first" % (pm3,)))
        else:
            t3 = traces.extract(pm3)
            if traces.trace_digest(t3) != traces.trace_digest(tr):
                v.append(core.viol("C01/depends_on_earlier_run/" + setup.kind, "the trace differs when the same Pervaporation/membrane objects modelled another run first",
                                   fresh=[tr["m"][:3], tr["J"][:2]], reused=[t3["m"][:3], t3["J"][:2]]))
        restarts += 1
    # recycled caller objects: a decoy run, then every caller-owned object is set in place to this case (all 3-step runs and the longest ones)
    if not v and setup.steps in (3, 12):
        v5, n5 = traces.check_recycled(case, tr, "C01/depends_on_earlier_run/" + setup.kind)
        v.extend(v5)
        restarts += n5
    return core.result("returned", nontrivial=True, digest=traces.trace_digest(tr), viol=v, states=tr["n"] + restarts * 2,
                       transitions=max(tr["n"] - 1, 0) + restarts, traces=1 + restarts, restarts=restarts,
                       sample={"m": tr["m"][:3], "x": tr["x"][:3], "J": tr["J"][:2]})


def main(tier, seed):
    rep = core.Report(
        ID, "model_checking", tier, seed,
        rule="every element of the stated finite product of alphabets is run once through the real process model; "
             "a case is non-trivial when the run returned a trace that was judged transition by transition (or raised and "
             "the raise was confirmed necessary by the reference stepper + real solver); distinct = distinct digest of the "
             "reported (m, x, T, J, Q) series",
        assumptions=["calculate_partial_fluxes is taken as given (judged by C02/C10)",
                     "find_best_fit wrapped by a memo returning deep copies (non-ideal kinds)",
                     "real-valued arguments are covered on a finite lattice only"],
        technique="explicit-state trace conformance against a reference stepper, exhaustive over a finite configuration lattice")
    U.install_fit_memo()
    for sp in spaces.process_spaces(tier, seed, purpose="mass"):
        spaces.prewarm(sp)
        core.run_space(rep, sp, judge)
    return rep.finish()


def replay(body):
    U.install_fit_memo()
    r1 = judge(body["case"])
    r2 = judge(body["case"])
    assert core.jsonable(r1["viol"]) == core.jsonable(r2["viol"]), "replay is not deterministic"
    for v in r1["viol"]:
        print("violation key=%s: %s" % (v["key"], v["msg"]))
    print("replayed: outcome=%s violations=%d" % (r1["outcome"], len(r1["viol"])))
    return 1 if r1["viol"] else 0
