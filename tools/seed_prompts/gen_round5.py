import os
here = os.path.dirname(os.path.abspath(__file__))
src = open(os.path.join(here, "gen_round4.py")).read()
ns = {"__file__": os.path.join(here, "gen_round4.py")}
code = src.split("for pid in tried:")[0]
exec(compile(code, "gen_round4_part", "exec"), ns)
tried, extra, tmpl, more = ns["tried"], ns["extra"], ns["tmpl"], ns["more"]
tmpl = tmpl.replace("This is a FOURTH round", "This is a FIFTH round").replace("/tmp/w6_", "/tmp/w7_").replace("Do not read or write anything under /verif or /repo.", "Do not read or write anything under /verif, /repo, /root/.claude or /root/.vp.")
more5 = {
'C03': "per-step heat capacities hoisted out of the loop ('hot-loop optimisation'); a components property sorted by molar mass pairing fractions with the wrong specific heats when the first component is the heavier one",
'C05': "'single curve' detected by the number of distinct temperatures; anything touching only the 2nd+ run on one object",
'C07': "per-object cache of feed-side pressures keyed by the composition's number; from_frame reading the composition type from the first CSV row only",
'C08': "ideal non-isothermal process rescaling the step-0 permeances itself; ideal isothermal model writing the converted feed back into the caller's Conditions",
'C10': "a warm start of the permeate iteration from the previous step inside a loop without a counter; a grace clause that raises only if the last step is >= 10 x precision",
'C11': "'exact' cooling integral only for steps longer than one hour; anything keyed on a threshold of the step length, area or mass",
'C16': "absolute 1e-12 noise threshold in the best-fit selection; fit_vle removing a method from the module-level method list for big data sets",
'C17': "falsy optional fields dropped from the Conditions JSON; duplicate CSV rows dropped on load",
'C18': "a component's remaining mass clipped at 0; pure feeds skipping the exhaustion guard",
'C20': "iteration counter kept on the object between calls; measurement extraction sorting the caller's curve list in place",
'C01': "first-component mass carried in its own list seeded from the (possibly molar) stated composition; final-step exhaustion turned into a break",
'C02': "convergence test rewritten with numpy.allclose(atol=precision); a 'cold trap' shortcut scaled with the precision",
'C04': "UNIQUAC pure-end clamp done in place on the caller's composition; partial pressure capped at the saturation pressure",
'C06': "a stale name in calculate_separation_factor; a 'negligible back pressure' shortcut in calculate_partial_fluxes",
'C09': "a conversion memo keyed without the component; driving force floored at 10 % of the feed partial pressure in the flux -> permeance inversion",
'C12': "the four get_permeance branches 'de-duplicated'; the stated activation energy hoisted out of the per-experiment loop",
'C19': "from_frame's two independent isna blocks merged; fit_vle's optimiser call wrapped in try/except ValueError",
}
for pid in more5:
    t = tried[pid] + "; " + more[pid] + "; " + more5[pid]
    open('/tmp/seed_round5_%s.txt' % pid, 'w').write(tmpl.replace('@ID@', pid).replace('@TRIED@', t).replace('@EXTRA@', extra.get(pid, '')))
print('ok', len(more5))
