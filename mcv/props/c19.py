"""C19 - contradictory or incomplete specifications are rejected at every entry point.

E1: entry point x (permeate temperature given?, permeate pressure given?) x otherwise valid
argument lattice.  The doubly specified cell must raise at every entry point that computes a
driving force; the three valid cells must NOT raise for a reason attributable to the
specification (guards against "rejects everything").  Further rejection classes: mixture without
parameters, activity model without parameters/constants at every entry point that takes a model,
curve with neither fluxes nor permeances, < 2 experiments without activation energy.
"""
from .. import core, universe as U
from . import spaces

ID = "C19"

ENTRY_POINTS = ["solver", "from_permeate", "permeate_composition", "separation_factor", "ideal_curve", "nonideal_curve",
                "ideal_iso", "ideal_noniso", "nonideal_iso", "nonideal_noniso", "pure_flux", "curve_from_fluxes", "curve_from_csv",
                "ideal_curve_empty", "curve_from_fluxes_empty"]  # curves with zero points: the specification is still checked
MODEL_ENTRY_POINTS = ["solver", "from_permeate", "permeate_composition", "separation_factor", "ideal_curve", "nonideal_curve",
                      "ideal_iso", "ideal_noniso", "nonideal_iso", "nonideal_noniso", "partial_pressures"]


def invoke(ep, mix, model, x, t, tp, pp, steps=2, pv=None, precision=None):
    """call entry point `ep` with otherwise valid arguments; returns ('ok', value) | ('raise', exc)."""
    mem = U.make_membrane(mix, 1e-3, 2e-5, t_ref=t, ea1=25000.0, ea2=60000.0) if pv is None else pv.membrane
    pv = U.Pervaporation(membrane=mem, mixture=mix) if pv is None else pv
    comp = U.Composition(p=x, type="weight")
    p1, p2 = U.Permeance(value=1e-3), U.Permeance(value=2e-5)
    cond = U.Conditions(membrane_area=0.05, initial_feed_temperature=t, initial_feed_amount=50.0, initial_feed_composition=comp,
                        permeate_temperature=tp, permeate_pressure=pp)
    pk = {} if precision is None else {"precision": precision}  # an optional argument that must not switch the specification check off
    if ep == "solver":
        return core.call(pv.calculate_partial_fluxes, feed_temperature=t, composition=comp, permeate_temperature=tp,
                         permeate_pressure=pp, first_component_permeance=p1, second_component_permeance=p2, calculation_type=model, **pk)
    if ep == "from_permeate":
        return core.call(pv.get_partial_fluxes_from_permeate_composition, first_component_permeance=p1, second_component_permeance=p2,
                         permeate_composition=U.Composition(p=0.9, type="weight"), feed_composition=comp, feed_temperature=t,
                         permeate_temperature=tp, permeate_pressure=pp, calculation_type=model)
    if ep == "permeate_composition":
        return core.call(pv.calculate_permeate_composition, feed_temperature=t, composition=comp, permeate_temperature=tp,
                         permeate_pressure=pp, calculation_type=model, **pk)
    if ep == "separation_factor":
        return core.call(pv.calculate_separation_factor, feed_temperature=t, composition=comp, permeate_temperature=tp,
                         permeate_pressure=pp, calculation_type=model, **pk)
    if ep == "ideal_curve":
        return core.call(pv.ideal_diffusion_curve, feed_temperature=t, compositions=[comp, U.Composition(p=min(x + 0.05, 1.0), type="weight")],
                         permeate_temperature=tp, permeate_pressure=pp, calculation_type=model, **pk)
    if ep == "ideal_curve_empty":
        return core.call(pv.ideal_diffusion_curve, feed_temperature=t, compositions=[], permeate_temperature=tp, permeate_pressure=pp, calculation_type=model)
    if ep == "curve_from_fluxes_empty":
        return core.call(U.DiffusionCurve, mixture=mix, membrane_name="M", feed_temperature=t, feed_compositions=[], partial_fluxes=[],
                         permeate_temperature=tp, permeate_pressure=pp)
    if ep in ("nonideal_curve", "nonideal_iso", "nonideal_noniso"):
        cs = U.make_curve_set(U.get_mixture("S1") if mix.name == "B" else mix, **{k: (tuple(v) if k == "temps" else v) for k, v in spaces.CURVE_CONFIGS["one"].items()})
        if ep == "nonideal_curve":
            return core.call(pv.non_ideal_diffusion_curve, diffusion_curve_set=cs, feed_temperature=t, initial_feed_composition=comp,
                             delta_composition=0.01, number_of_steps=steps, permeate_temperature=tp, permeate_pressure=pp,
                             calculation_type=model)
        f = pv.non_ideal_isothermal_process if ep == "nonideal_iso" else pv.non_ideal_non_isothermal_process
        return core.call(f, conditions=cond, diffusion_curve_set=cs, number_of_steps=steps, delta_hours=0.1, calculation_type=model, **pk)
    if ep == "ideal_iso":
        return core.call(pv.ideal_isothermal_process, number_of_steps=steps, delta_hours=0.1, conditions=cond, calculation_type=model, **pk)
    if ep == "ideal_noniso":
        return core.call(pv.ideal_non_isothermal_process, number_of_steps=steps, delta_hours=0.1, conditions=cond, calculation_type=model, **pk)
    if ep == "pure_flux":
        return core.call(mem.get_estimated_pure_component_flux, t, mix.first_component, permeate_temperature=tp, permeate_pressure=pp)
    if ep == "curve_from_fluxes":
        return core.call(U.DiffusionCurve, mixture=mix, membrane_name="M", feed_temperature=t, feed_compositions=[comp],
                         partial_fluxes=[(0.012, 0.0007)], permeate_temperature=tp, permeate_pressure=pp)
    if ep == "curve_from_csv":
        # the tabular route: a flux-only curve whose table fills both permeate columns (built-in mixtures only: load looks them up by name)
        import tempfile, shutil, pathlib
        if getattr(U.Mixtures, mix.name, None) is not mix:
            return "skip", None
        d_ = tempfile.mkdtemp(prefix="c19_", dir="/dev/shm" if pathlib.Path("/dev/shm").is_dir() else None)
        try:
            path = pathlib.Path(d_) / "set.csv"
            cols = U.pyvaporation.diffusion_curve.diffusion_curve.DC_SET_COLUMNS
            row = {"curve_id": "1", "membrane_name": "M", "mixture": mix.name, "feed_temperature": t, "permeate_temperature": "" if tp is None else tp,
                   "permeate_pressure": "" if pp is None else pp, "composition": x, "composition_type": "weight", "partial_flux_1": 0.012, "partial_flux_2": 0.0007,
                   "permeance_1": "", "permeance_2": "", "units": "", "comment": "c"}
            with open(path, "w") as f_:
                f_.write(",".join(cols) + "\n")
                for dx in (0.0, 0.05):
                    r_ = dict(row, composition=min(x + dx, 0.99))
                    f_.write(",".join(str(r_[c_]) for c_ in cols) + "\n")
            return core.call(U.DiffusionCurveSet.load, path)
        finally:
            shutil.rmtree(d_, ignore_errors=True)
    if ep == "curve_from_permeances":  # negative control: not in the statement, must not be demanded
        return core.call(U.DiffusionCurve, mixture=mix, membrane_name="M", feed_temperature=t, feed_compositions=[comp],
                         permeances=[(p1, p2)], permeate_temperature=tp, permeate_pressure=pp)
    if ep == "partial_pressures":
        return core.call(U.pyvaporation.get_partial_pressures, t, mix, comp, model)
    # the activity model selected by OMITTING the argument is the documented default (NRTL)
    if ep == "partial_pressures_default":
        return core.call(U.pyvaporation.get_partial_pressures, t, mix, comp)
    if ep == "activity_default":
        return core.call(U.pyvaporation.mixtures.mixture.calculate_activity_coefficients, t, mix, comp)
    if ep == "curve_from_fluxes_default":
        return core.call(U.DiffusionCurve, mixture=mix, membrane_name="M", feed_temperature=t, feed_compositions=[comp],
                         partial_fluxes=[(0.012, 0.0007)], permeate_temperature=tp, permeate_pressure=pp)
    if ep == "curve_from_permeances_default":
        return core.call(U.DiffusionCurve, mixture=mix, membrane_name="M", feed_temperature=t, feed_compositions=[comp], permeances=[(p1, p2)])
    raise ValueError(ep)


def judge_modes(case):
    mix = U.get_mixture(case["mixture"])
    t = case["T"]
    tp = t - 60.0 if case["tp"] else None
    pp = case.get("pp_value", 0.1) if case["pp"] else None  # includes a permeate pressure of exactly 0 / 0.0: "specified" is not "truthy"
    if pp == "same_number_as_tp":
        pp = t - 60.0  # the two values are numerically EQUAL (250.0 K and 250.0 kPa): still two specifications
    elif pp == "same_number_as_tp_int":
        tp, pp = int(round(t - 60.0)), float(int(round(t - 60.0)))
    if isinstance(pp, str):
        # a permeate pressure that happens to be CONSISTENT with the permeate temperature (a component's saturation pressure there,
        # exactly or to 0.03 %): stating both is still a double specification
        comp_ = mix.first_component if pp.startswith("psat1") else mix.second_component
        pp = float(comp_.get_vapor_pressure(t - 60.0)) * (1.0003 if pp.endswith("+") else 1.0)
    st, r = invoke(case["ep"], mix, case["model"], case["x"], t, tp, pp, precision=case.get("precision"))
    v = []
    if st == "skip":
        return core.result("not-applicable", nontrivial=False)
    if case["tp"] and case["pp"]:
        if case["ep"] == "curve_from_permeances":
            return core.result("control:" + st, nontrivial=False)
        if st == "ok":
            v.append(core.viol("C19/double_specification_accepted/" + case["ep"],
                               "%s accepts both a permeate temperature and a permeate pressure" % case["ep"]))
        return core.result("rejected:" + type(r).__name__ if st != "ok" else "accepted", digest=core.digest_of(case), viol=v)
    # a valid cell may still raise for reasons that have nothing to do with the specification (negative driving
    # force at this state); the positive control is therefore existential per (entry point, cell): see main()
    cell = ("T" if case["tp"] else "") + ("p" if case["pp"] else "") or "vac"
    return core.result("accepted" if st == "ok" else "raised-in-valid-cell", digest=core.digest_of(case), viol=v,
                       **{"accepted|%s|%s" % (case["ep"], cell): 1 if st == "ok" else 0})


def broken_mixture(kind):
    base = U.get_mixture("S1")
    c1, c2 = base.first_component, base.second_component
    if kind == "nrtl_missing":
        return U.Mixture(name="B", first_component=c1, second_component=c2, nrtl_params=None, uniquac_params=base.uniquac_params), "NRTL"
    if kind == "uniquac_missing":
        return U.Mixture(name="B", first_component=c1, second_component=c2, nrtl_params=base.nrtl_params, uniquac_params=None), "UNIQUAC"
    if kind in ("constants_missing_first", "constants_missing_second"):
        d = U._SYN_COMPONENTS["SA" if kind.endswith("first") else "SB"]
        bare = U.make_component("SA" if kind.endswith("first") else "SB", d["mw"], d["vp"], d["cp"], None)
        return U.Mixture(name="B", first_component=bare if kind.endswith("first") else c1,
                         second_component=bare if kind.endswith("second") else c2, nrtl_params=base.nrtl_params,
                         uniquac_params=base.uniquac_params), "UNIQUAC"
    raise ValueError(kind)


def judge_model(case):
    mix, model = broken_mixture(case["kind"])
    if case["ep"].endswith("_default") and case["kind"] != "nrtl_missing":
        return core.result("not-applicable", nontrivial=False)  # the default model is NRTL: only its absence is an invalid specification
    tp = case["T"] - 25.0 if case["mode"] == "T" else None
    pp = 0.4 if case["mode"] == "p" else None
    st, r = invoke(case["ep"], mix, model, case["x"], case["T"], tp, pp)
    v = []
    if st == "ok":
        v.append(core.viol("C19/missing_model_parameters_accepted/" + case["ep"],
                           "%s computes with model %s although %s" % (case["ep"], model, case["kind"])))
    # positive control: the other model, whose parameters exist, must work
    other = "UNIQUAC" if model == "NRTL" else "NRTL"
    # (curve-building entry points are exempt: DiffusionCurve has no model parameter and always evaluates NRTL,
    #  which the statement does not speak about)
    if not v and case["kind"] in ("nrtl_missing", "uniquac_missing") and case["ep"] not in ("ideal_curve", "nonideal_curve") and not case["ep"].endswith("_default") \
            and case["mode"] == "vac" and 0.0 < case["x"] < 1.0:  # in vacuum, away from pure feeds (separation factor divides by the
        # feed fraction), nothing but the model's parameters can make the call raise
        st2, r2 = invoke(case["ep"], mix, other, case["x"], case["T"], tp, pp)
        if st2 != "ok":
            v.append(core.viol("C19/valid_specification_rejected/" + case["ep"], "%s rejects model %s whose parameters are present: %r" % (case["ep"], other, r2)))
    return core.result("rejected:" + type(r).__name__ if st != "ok" else "accepted", digest=core.digest_of(case), viol=v)


AFTER_USE_EPS = ["solver", "from_permeate", "permeate_composition", "separation_factor", "ideal_curve", "ideal_iso", "ideal_noniso"]


def judge_model_after_use(case):
    """a Pervaporation object that has already answered this very question with a complete mixture; then its mixture loses the requested
    model's parameters (replaced by a same-named mixture without them, or edited in place): the same question must now be rejected."""
    full = U.get_mixture("S1")
    model = "NRTL" if case["kind"] == "nrtl_missing" else "UNIQUAC"
    tp = case["T"] - 25.0 if case["mode"] == "T" else None
    pp = 0.4 if case["mode"] == "p" else None
    mem = U.make_membrane(full, 1e-3, 2e-5, t_ref=case["T"], ea1=25000.0, ea2=60000.0)
    pv = U.Pervaporation(membrane=mem, mixture=full)
    st0, r0 = invoke(case["ep"], full, model, case["x"], case["T"], tp, pp, steps=case["steps"], pv=pv)
    if st0 != "ok":
        return core.result("not-judged:first-call-raises", nontrivial=False)
    try:
        if case["how"] == "replaced":
            broken = U.Mixture(name=full.name, first_component=full.first_component, second_component=full.second_component,
                               nrtl_params=None if model == "NRTL" else full.nrtl_params, uniquac_params=None if model == "UNIQUAC" else full.uniquac_params)
            pv.mixture = broken
        else:
            broken = full
            if model == "NRTL":
                full.nrtl_params = None
            else:
                full.uniquac_params = None
    except (AttributeError, TypeError):
        return core.result("not-judged:frozen", nontrivial=False)
    st, r = invoke(case["ep"], broken, model, case["x"], case["T"], tp, pp, steps=case["steps"], pv=pv)
    v = []
    if st == "ok":
        v.append(core.viol("C19/missing_model_parameters_accepted/after_use/" + case["ep"], "%s answered with a complete mixture first; after the mixture's %s parameters were %s "
                           "the same object still computes with that model" % (case["ep"], model, case["how"])))
    return core.result("rejected:" + type(r).__name__ if st != "ok" else "accepted", digest=core.digest_of(case), viol=v)


def judge_misc(case):
    kind = case["kind"]
    v = []
    mix = U.get_mixture("H2O_EtOH")
    if kind == "mixture_without_parameters":
        st, r = core.call(U.Mixture, name="N", first_component=mix.first_component, second_component=mix.second_component)
        if st == "ok":
            v.append(core.viol("C19/mixture_without_parameters_accepted", "a Mixture without interaction parameters was constructed"))
    elif kind == "curve_without_data":
        st, r = core.call(U.DiffusionCurve, mixture=mix, membrane_name="M", feed_temperature=case["T"],
                          feed_compositions=[U.Composition(p=case["x"], type="weight")], **case.get("kw", {}))
        if st == "ok":
            v.append(core.viol("C19/curve_without_data_accepted", "a DiffusionCurve with neither fluxes nor permeances was constructed"))
    elif kind == "vle_without_constants":
        UQ = U.pyvaporation.mixtures.uniquac_fitting
        c1, c2 = getattr(U.Components, case["components"][0]), getattr(U.Components, case["components"][1])
        pts = UQ.VLEPoints(components=[c1, c2], data=[UQ.VLEPoint(composition=U.Composition(p=xx, type="molar"), pressures=(10.0 + 30 * xx, 40.0 - 25 * xx), temperature=333.15)
                                                      for xx in (0.1, 0.3, 0.5, 0.7, 0.9)])
        st, r = core.call(UQ.fit_vle, pts, case["method"])
        if st == "ok":
            v.append(core.viol("C19/missing_component_constants_accepted/fit_vle", "fit_vle(method=%r) returns %r for components without UNIQUAC constants" % (case["method"], r)))
    elif kind == "activation_energy":
        n = case["n"]
        comp = mix.first_component
        exps = [U.IdealExperiment(name="e", temperature=313.15 + 20 * i, component=comp, permeance=U.Permeance(value=0.03 * (1 + i)),
                                  activation_energy=None) for i in range(n)]
        exps.append(U.IdealExperiment(name="o", temperature=313.15, component=mix.second_component, permeance=U.Permeance(value=1e-4),
                                      activation_energy=50000.0))
        cs = U.make_curve_set(mix, law="lawA", temps=(333.15,))
        mem = U.Membrane(name="M", ideal_experiments=U.IdealExperiments(experiments=exps), diffusion_curve_sets=[cs])
        pv = U.Pervaporation(membrane=mem, mixture=mix)
        comp0 = U.Composition(p=case["x"], type="weight")
        cond = U.Conditions(membrane_area=0.05, initial_feed_temperature=case["T"], initial_feed_amount=50.0, initial_feed_composition=comp0)
        site = case["site"]
        if site == "calculate_activation_energy":
            st, r = core.call(mem.calculate_activation_energy, comp)
        elif site == "get_permeance":
            st, r = core.call(mem.get_permeance, case["T"], comp)
        elif site == "nonideal_curve":
            st, r = core.call(pv.non_ideal_diffusion_curve, diffusion_curve_set=cs, feed_temperature=case["T"], initial_feed_composition=comp0,
                              delta_composition=0.01, number_of_steps=2)
        elif site == "nonideal_iso":
            st, r = core.call(pv.non_ideal_isothermal_process, conditions=cond, diffusion_curve_set=cs, number_of_steps=2, delta_hours=0.1)
        else:
            st, r = core.call(pv.non_ideal_non_isothermal_process, conditions=cond, diffusion_curve_set=cs, number_of_steps=2, delta_hours=0.1)
        if n < 2 and st == "ok":
            if n == 0 or True:
                v.append(core.viol("C19/activation_energy_defaulted/" + site, "%d experiment(s) without activation energy, yet %s returned %r" % (n, site, core.jsonable(r) if not hasattr(r, "feed_mass") else "a model")))
        if n >= 2 and st != "ok":
            v.append(core.viol("C19/valid_specification_rejected/" + site, "two experiments suffice, yet %s raises %r" % (site, r)))
    else:
        raise ValueError(kind)
    return core.result(("rejected:" + type(r).__name__) if st != "ok" else "accepted", digest=core.digest_of(case), viol=v)


def main(tier, seed):
    q = tier == "quick"
    rep = core.Report(
        ID, "exploration", tier, seed,
        rule="every (entry point, specification cell, otherwise valid arguments) of the finite product is called once; the "
             "invalid cell must raise, the valid cells must not; non-trivial = judged; distinct = distinct case",
        assumptions=["any Exception subclass counts as rejection", "DiffusionCurve built from permeances is a negative control "
                     "(not named by the statement) and is never demanded to reject"],
        technique="bounded exhaustive enumeration of entry points x specification classes")
    mixes = ["H2O_EtOH", "S2"] if q else ["H2O_EtOH", "MeOH_DMC", "S1", "S2", "S4"]
    xs = core.lat([0.1, 0.5], seed) if q else core.lat([0.05, 0.1, 0.5, 0.9], seed)
    ts = core.lat([333.15, 353.15], seed)[:1] if q else core.lat([313.15, 333.15, 353.15], seed)
    U.install_fit_memo()
    sp = core.Space("permeate_specification", {"ep": ENTRY_POINTS + ["curve_from_permeances"], "mixture": mixes, "model": ["NRTL", "UNIQUAC"],
                                               "tp": [False, True], "pp": [False, True], "pp_value": [0.1, 0.0, 0, 250.0, 1e-9, "psat1", "psat2", "psat1+", "same_number_as_tp", "same_number_as_tp_int"], "precision": [None, 1.0, 1.5, 10.0], "x": xs, "T": ts},  # 250 kPa: above every saturation pressure (no driving force)
                    lambda c: U.has_model(U.get_mixture(c["mixture"]), c["model"]) and (c["pp"] or c["pp_value"] == 0.1) and (c["precision"] is None or (c["tp"] and c["pp"] and c["pp_value"] in (0.1, 0.0))))
    m = core.run_space(rep, sp, judge_modes)
    for ep in ENTRY_POINTS:
        for cell in ("vac", "T", "p"):
            if m["extra"].get("accepted|%s|%s" % (ep, cell), 0) == 0:
                rep.add_violation(dict(core.viol("C19/valid_specification_rejected/" + ep,
                                                 "%s accepts no case of the valid cell %r anywhere in the lattice (rejects everything)" % (ep, cell)),
                                       space="permeate_specification", index=-1, case={"ep": ep, "cell": cell}))
    sp2 = core.Space("model_parameters", {"ep": MODEL_ENTRY_POINTS + ["partial_pressures_default", "activity_default", "curve_from_fluxes_default", "curve_from_permeances_default"], "kind": ["nrtl_missing", "uniquac_missing", "constants_missing_first",
                                                                              "constants_missing_second"],
                                          "mode": ["vac", "T", "p"], "x": xs + [0.0, 1.0], "T": ts},  # incl. pure feeds: no shortcut may bypass the checks
                     lambda c: not (c["ep"] in ("partial_pressures", "partial_pressures_default", "activity_default", "curve_from_permeances_default") and c["mode"] != "vac"))
    core.run_space(rep, sp2, judge_model)
    sp2b = core.Space("model_parameters_after_use", {"ep": AFTER_USE_EPS, "kind": ["nrtl_missing", "uniquac_missing"], "mode": ["vac", "T", "p"], "how": ["replaced", "edited_in_place"],
                                                     "steps": [1, 2], "x": xs, "T": ts},
                      lambda c: c["steps"] == 2 or c["ep"] in ("ideal_iso", "ideal_noniso"))
    core.run_space(rep, sp2b, judge_model_after_use)
    misc = [{"kind": "mixture_without_parameters"}]
    for comps_ in (("Benzene", "CycloHexane"), ("H2O", "DME"), ("CycloHexane", "EtOH")):
        for meth in (None, "Powell", "COBYLA"):
            misc.append({"kind": "vle_without_constants", "components": comps_, "method": meth})
    for t in ts:
        for x in xs:
            misc.append({"kind": "curve_without_data", "T": t, "x": x})
            misc.append({"kind": "curve_without_data", "T": t, "x": x, "kw": {"permeate_temperature": t - 20}})
            misc.append({"kind": "curve_without_data", "T": t, "x": x, "kw": {"permeate_pressure": 0.3}})
            for n in (0, 1, 2, 3):
                for site in ("calculate_activation_energy", "get_permeance", "nonideal_curve", "nonideal_iso", "nonideal_noniso"):
                    if n == 0 and site != "calculate_activation_energy":
                        continue
                    misc.append({"kind": "activation_energy", "n": n, "site": site, "T": t - 7.0, "x": x})
            # the non-isothermal model needs the activation energy even when it STARTS at the curve's temperature (it drifts away)
            for n in (1, 2):
                misc.append({"kind": "activation_energy", "n": n, "site": "nonideal_noniso", "T": 333.15, "x": x})
            # a query a few millikelvin beside the single experiment (313.15 K) is "another temperature"
            for dT in (1e-3, -2e-3, 1e-6):
                misc.append({"kind": "activation_energy", "n": 1, "site": "get_permeance", "T": 313.15 + dT, "x": x})
    core.run_space(rep, core.ListSpace("misc_rejections", misc), judge_misc)
    return rep.finish()


def replay(body):
    U.install_fit_memo()
    fn = {"permeate_specification": judge_modes, "model_parameters": judge_model, "model_parameters_after_use": judge_model_after_use, "misc_rejections": judge_misc}[body["space"]]
    r = fn(body["case"])
    for v in r["viol"]:
        print("violation key=%s: %s" % (v["key"], v["msg"]))
    print("replayed: outcome=%s violations=%d" % (r["outcome"], len(r["viol"])))
    return 1 if r["viol"] else 0
