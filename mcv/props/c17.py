"""C17 - saved curves, functions, conditions and process models load back unchanged.

E1 round-trip lattice (process models from all 4 generators, curves from generators and by hand,
permeance functions binary + JSON, conditions JSON) and E3 history exploration on the directory
tree of one membrane: operations = save(model, storage mode, directory-name answer) with the only
nondeterministic environment answer of the library (hash(datetime.now())) owned by the harness;
after every transition all previously existing directories must be byte-identical, a transition
creates exactly one new directory that loads back equal to its model or raises and changes
nothing (forced name collisions), and load never writes.
"""
import hashlib
import itertools
import math
import os
import pathlib
import shutil
import tempfile

from .. import core, traces, universe as U
from . import spaces

ID = "C17"
PROC = U.pyvaporation.process.process
OPT = U.pyvaporation.optimizer.optimizer
SCRATCH = "/dev/shm" if os.path.isdir("/dev/shm") else tempfile.gettempdir()
REL = 1e-9


class _Now:
    def __init__(self, h):
        self.h = h

    def __hash__(self):
        return self.h

    def strftime(self, fmt):
        return "01/01/2000, 00:00"


class ClockStub:
    """stands in for `datetime` inside pyvaporation.process.process: now() hashes to the harness's answer."""
    answer = 1111

    @classmethod
    def now(cls):
        return _Now(cls.answer)


def install_clock():
    PROC.datetime = ClockStub


def tree(root):
    out = {}
    root = pathlib.Path(root)
    for p in sorted(root.rglob("*")):
        rel = str(p.relative_to(root))
        out[rel] = "dir" if p.is_dir() else hashlib.sha256(p.read_bytes()).hexdigest()
    return out


def num_eq(a, b):
    def none(x):
        return x is None or (isinstance(x, float) and math.isnan(x))
    if none(a) or none(b):
        try:
            return none(a) and (none(b) or math.isnan(float(b)))
        except (TypeError, ValueError):
            return False
    return core.close(float(a), float(b), REL, 1e-300)


def compare_functions(f, g, what):
    if (f is None) != (g is None):
        return "%s: present on one side only" % what
    if f is None:
        return None
    if f.n != g.n or f.m != g.m or not num_eq(f.alpha, g.alpha) or len(f.a) != len(g.a) or len(f.b) != len(g.b):
        return "%s: n/m/alpha/lengths differ (%r vs %r)" % (what, (f.n, f.m, f.alpha, len(f.a), len(f.b)), (g.n, g.m, g.alpha, len(g.a), len(g.b)))
    for u, w in zip(list(f.a) + list(f.b), list(g.a) + list(g.b)):
        if not num_eq(u, w):
            return "%s: coefficient %r vs %r" % (what, u, w)
    return None


def compare_models(orig, loaded, is_safe):
    """first difference between a process model and its re-loaded image, or None."""
    mix = orig.mixture
    if loaded.mixture is not mix and loaded.mixture.name != mix.name:
        return "mixture %r vs %r" % (mix.name, loaded.mixture.name)
    n = len(orig.time)
    for name in ("feed_temperature", "time", "feed_mass", "feed_evaporation_heat", "permeate_condensation_heat"):
        a, b = list(getattr(orig, name)), list(getattr(loaded, name))
        if len(a) != len(b):
            return "%s: %d entries vs %d" % (name, len(a), len(b))
        for k in range(n):
            if not num_eq(a[k], b[k]):
                return "%s[%d]: %r vs %r" % (name, k, a[k], b[k])
    for name in ("feed_compositions", "permeate_composition"):
        a, b = getattr(orig, name), getattr(loaded, name)
        if len(a) != len(b):
            return "%s: %d entries vs %d" % (name, len(a), len(b))
        for k in range(n):
            if not core.close(U.mass_fraction(a[k], mix), U.mass_fraction(b[k], mix), REL, 1e-300):
                return "%s[%d]: mass fraction %r vs %r" % (name, k, U.mass_fraction(a[k], mix), U.mass_fraction(b[k], mix))
    if len(loaded.partial_fluxes) != n or len(loaded.permeances) != n:
        return "flux/permeance series length %d/%d vs %d" % (len(loaded.partial_fluxes), len(loaded.permeances), n)
    for k in range(n):
        for i in (0, 1):
            if not num_eq(orig.partial_fluxes[k][i], loaded.partial_fluxes[k][i]):
                return "partial_fluxes[%d][%d]: %r vs %r" % (k, i, orig.partial_fluxes[k][i], loaded.partial_fluxes[k][i])
            comp = mix.first_component if i == 0 else mix.second_component
            po = orig.permeances[k][i]
            from fractions import Fraction as _F
            f_ = _F(1) if po.units == U.Units.kg_m2_h_kPa else (_F(comp.molecular_weight) * 3600 * (_F(1) if po.units == "SI" else _F("3.35e-10")))
            pa_value = float(_F(float(po.value)) * f_)
            pb = loaded.permeances[k][i]
            if pb.units != U.Units.kg_m2_h_kPa or not num_eq(pa_value, pb.value):
                return "permeances[%d][%d]: %r kg/(m2 h kPa) (held as %r %s) vs %r %s" % (k, i, pa_value, po.value, po.units, pb.value, pb.units)
    for name in ("permeate_temperature", "permeate_pressure"):
        a = getattr(orig, name)
        b = getattr(loaded, name)
        a0 = a[0] if isinstance(a, (list, tuple)) and len(a) else a
        b0 = b[0] if isinstance(b, (list, tuple)) and len(b) else b
        if not num_eq(a0, b0):
            return "%s: %r vs %r" % (name, a0, b0)
    d = compare_functions(orig.permeance_fits[0] if orig.permeance_fits else None, loaded.permeance_fits[0] if loaded.permeance_fits else None, "permeance_fits[0]")
    d = d or compare_functions(orig.permeance_fits[1] if orig.permeance_fits else None, loaded.permeance_fits[1] if loaded.permeance_fits else None, "permeance_fits[1]")
    if d:
        return d
    ca, cb = orig.initial_conditions, loaded.initial_conditions
    if (ca is None) != (cb is None):
        return "initial_conditions present on one side only"
    if ca is not None:
        for name in ("membrane_area", "initial_feed_temperature", "initial_feed_amount", "permeate_temperature", "permeate_pressure"):
            if not num_eq(getattr(ca, name), getattr(cb, name)):
                return "initial_conditions.%s: %r vs %r" % (name, getattr(ca, name), getattr(cb, name))
        if not core.close(U.mass_fraction(ca.initial_feed_composition, mix), U.mass_fraction(cb.initial_feed_composition, mix), REL):
            return "initial_conditions.initial_feed_composition differs"
        if not is_safe:  # the binary mode persists the temperature programme too (the JSON mode documents that it does not)
            pa, pb = ca.temperature_program, cb.temperature_program
            if (pa is None) != (pb is None):
                return "initial_conditions.temperature_program present on one side only"
            if pa is not None and (pa.type != pb.type or len(pa.coefficients) != len(pb.coefficients) or
                                   not all(num_eq(u, w) for u, w in zip(pa.coefficients, pb.coefficients))):
                return "initial_conditions.temperature_program: %r vs %r" % (pa, pb)
    return None


def new_dirs(before, after):
    return sorted({k.split("/")[1] for k in after if k.startswith("results/") and k.count("/") >= 1} -
                  {k.split("/")[1] for k in before if k.startswith("results/") and k.count("/") >= 1})


def make_model(spec):
    setup = traces.Setup(spec)
    st, pm = setup.run()
    return st, pm


def judge_roundtrip(case):
    install_clock()
    st, pm = make_model(case["model"])
    if st != "ok":
        return core.result("model-raised", nontrivial=False)
    if case.get("perm_units"):
        # a process model may hold its permeances in any unit; load promises kg/(m2 h kPa)
        mixo = pm.mixture
        pm.permeances = [(U.exact_permeance(float(p[0].value), case["perm_units"], mixo.first_component.molecular_weight),
                          U.exact_permeance(float(p[1].value), case["perm_units"], mixo.second_component.molecular_weight)) for p in pm.permeances]
    root = tempfile.mkdtemp(prefix="c17_", dir=SCRATCH)
    try:
        ClockStub.answer = 4242
        before = tree(root)
        st, r = core.call(pm.save, membrane_path=root, is_safe=case["is_safe"])
        if st != "ok":
            return core.result("save-raised", viol=[core.viol("C17/save_raises", "saving a valid process model raises %r" % (r,))])
        after = tree(root)
        created = new_dirs(before, after)
        if len(created) != 1:
            return core.result("bad-dirs", viol=[core.viol("C17/save_directories", "one save created directories %r" % (created,))])
        path = os.path.join(root, "results", created[0])
        st, loaded = core.call(U.pyvaporation.ProcessModel.load, path, is_safe=case["is_safe"])
        if st != "ok":
            return core.result("load-raised", viol=[core.viol("C17/load_raises", "loading a saved process model raises %r" % (loaded,))])
        v = []
        if tree(root) != after:
            v.append(core.viol("C17/load_writes", "ProcessModel.load modified the directory tree"))
        d = compare_models(pm, loaded, case["is_safe"])
        if d:
            v.append(core.viol("C17/process_roundtrip/" + case["model"]["kind"], "saved and re-loaded process model differ: %s" % d, is_safe=case["is_safe"]))
        if not v:
            # the directory is removed, ANOTHER model is saved under the same name (same clock answer) and loaded
            shutil.rmtree(path)
            other = dict(case["model"], x0=min(case["model"]["x0"] + 0.07, 0.95), steps=case["model"]["steps"] + 1, area=case["model"]["area"] * 1.5)
            st_o, pm_o = make_model(other)
            if st_o == "ok":
                st_s, _r = core.call(pm_o.save, membrane_path=root, is_safe=case["is_safe"])
                st_l, loaded_o = core.call(U.pyvaporation.ProcessModel.load, path, is_safe=case["is_safe"]) if st_s == "ok" else ("raise", None)
                if st_s == "ok" and st_l == "ok":
                    d2 = compare_models(pm_o, loaded_o, case["is_safe"])
                    if d2:
                        v.append(core.viol("C17/process_reload_same_path/" + case["model"]["kind"], "another model saved under a re-used directory name loads back wrongly: %s" % d2, is_safe=case["is_safe"]))
        return core.result("roundtrip", digest=core.digest_of([case]), viol=v, states=2, transitions=2, traces=1)
    finally:
        shutil.rmtree(root, ignore_errors=True)


def judge_curve(case):
    mix = U.get_mixture(case["mixture"])
    t = case["T"]
    mode = tuple(case["mode"]) if case["mode"] != "vac" else "vac"
    kw = U.permeate_kwargs(mode, t)
    xs = case["xs"]
    comps = [U.composition(x, (case["basis"] if case["basis"] != "mixed" else ("weight" if i_ % 2 == 0 else "molar")), mix) for i_, x in enumerate(xs)]
    if case["source"] == "permeances":
        perms = []
        for i, x in enumerate(xs):
            pair = []
            for ci, comp in ((0, mix.first_component), (1, mix.second_component)):
                p = U.Permeance(value=case["scale"] * (1 + 0.37 * i) * (1.0 if ci == 0 else 3.3e-3), units=U.Units.kg_m2_h_kPa)
                pair.append(U.exact_permeance(float(p.value), case["unit"], comp.molecular_weight))
            perms.append(tuple(pair))
        st, curve = core.call(U.DiffusionCurve, mixture=mix, membrane_name="M x", feed_temperature=t, feed_compositions=comps, permeances=perms,
                              comments=case.get("comment"))
    elif case["source"] == "fluxes":
        fl = [(case["scale"] * (1 + 0.21 * i), case["scale"] * 2.7e-2 * (1 + 0.5 * i)) for i in range(len(xs))]
        st, curve = core.call(U.DiffusionCurve, mixture=mix, membrane_name="M x", feed_temperature=t, feed_compositions=comps, partial_fluxes=fl,
                              permeate_temperature=kw.get("permeate_temperature"), permeate_pressure=kw.get("permeate_pressure"), comments=case.get("comment"))
    else:
        mem = U.make_membrane(mix, case["scale"], case["scale"] * 1e-2, t_ref=t, ea1=25000.0, ea2=60000.0)
        pv = U.Pervaporation(membrane=mem, mixture=mix)
        st, curve = core.call(pv.ideal_diffusion_curve, feed_temperature=t, compositions=comps, **kw)
    if st != "ok":
        return core.result("curve-raised", nontrivial=False)
    root = tempfile.mkdtemp(prefix="c17c_", dir=SCRATCH)
    try:
        path = pathlib.Path(root) / "curve.csv"
        st, r = core.call(curve.save, path)
        if st != "ok":
            return core.result("save-raised", viol=[core.viol("C17/curve_save_raises", "%r" % (r,))])
        before = tree(root)
        st, cs = core.call(U.DiffusionCurveSet.load, path)
        if st != "ok":
            return core.result("load-raised", viol=[core.viol("C17/curve_load_raises", "%r" % (cs,))])
        v = []
        if tree(root) != before:
            v.append(core.viol("C17/load_writes", "DiffusionCurveSet.load modified the directory"))
        if len(cs.diffusion_curves) != 1:
            v.append(core.viol("C17/curve_roundtrip", "one saved curve loads as %d curves" % len(cs.diffusion_curves)))
            return core.result("roundtrip", viol=v)
        c2 = cs.diffusion_curves[0]
        d = None
        if c2.mixture.name != mix.name:
            d = "mixture %r vs %r" % (mix.name, c2.mixture.name)
        elif len(c2) != len(curve):
            d = "%d points vs %d" % (len(curve), len(c2))
        elif not num_eq(curve.feed_temperature, c2.feed_temperature) or not num_eq(curve.permeate_temperature, c2.permeate_temperature) or not num_eq(curve.permeate_pressure, c2.permeate_pressure):
            d = "temperatures/pressure (%r, %r, %r) vs (%r, %r, %r)" % (curve.feed_temperature, curve.permeate_temperature, curve.permeate_pressure,
                                                                       c2.feed_temperature, c2.permeate_temperature, c2.permeate_pressure)
        else:
            for i in range(len(curve)):
                if c2.feed_compositions[i].type != "weight":
                    d = "re-loaded composition %d is a %s fraction" % (i, c2.feed_compositions[i].type)
                    break
                if not core.close(U.mass_fraction(curve.feed_compositions[i], mix), float(c2.feed_compositions[i].p), REL, 1e-300):
                    d = "composition %d: mass fraction %r vs %r" % (i, U.mass_fraction(curve.feed_compositions[i], mix), c2.feed_compositions[i].p)
                    break
                for j in (0, 1):
                    if not num_eq(curve.partial_fluxes[i][j], c2.partial_fluxes[i][j]):
                        d = "partial_fluxes[%d][%d]: %r vs %r" % (i, j, curve.partial_fluxes[i][j], c2.partial_fluxes[i][j])
                    if c2.permeances[i][j].units != curve.permeances[i][j].units or not num_eq(curve.permeances[i][j].value, c2.permeances[i][j].value):
                        d = "permeances[%d][%d]: %r %s vs %r %s" % (i, j, curve.permeances[i][j].value, curve.permeances[i][j].units, c2.permeances[i][j].value, c2.permeances[i][j].units)
                if d:
                    break
        if d:
            v.append(core.viol("C17/curve_roundtrip/" + case["source"], "saved and re-loaded curve differ: %s" % d))
        return core.result("roundtrip", digest=core.digest_of(case), viol=v, states=2, transitions=2, traces=1)
    finally:
        shutil.rmtree(root, ignore_errors=True)


def judge_function(case):
    import numpy
    a, b = case["a"], case["b"]
    if case["numpy"]:
        a, b = numpy.array(a, dtype=float), numpy.array(b, dtype=float)
    f = OPT.PervaporationFunction(n=len(case["a"]), m=len(case["b"]) - 1, alpha=case["alpha"], a=a, b=b)
    root = tempfile.mkdtemp(prefix="c17f_", dir=SCRATCH)
    v = []
    try:
        for name, save, load in (("binary", f.save, OPT.PervaporationFunction.load), ("json", f.safe_save, OPT.PervaporationFunction.safe_load)):
            path = os.path.join(root, "f_" + name)
            st, r = core.call(save, path)
            if st != "ok":
                v.append(core.viol("C17/function_save_raises/" + name, "%r" % (r,)))
                continue
            before = tree(root)
            st, g = core.call(load, path)
            if st != "ok":
                v.append(core.viol("C17/function_load_raises/" + name, "%r" % (g,)))
                continue
            if tree(root) != before:
                v.append(core.viol("C17/load_writes", "loading a permeance function modified the directory"))
            d = compare_functions(f, g, "function")
            if not d:
                for x in (0.1, 0.8):
                    if not num_eq(f(x, 333.15), g(x, 333.15)):
                        d = "value at x=%r: %r vs %r" % (x, f(x, 333.15), g(x, 333.15))
            if d:
                v.append(core.viol("C17/function_roundtrip/" + name, "saved and re-loaded permeance function differ: %s" % d))
        # a DIFFERENT function saved to the SAME path afterwards must be what the next load returns
        f2 = OPT.PervaporationFunction(n=len(case["a"]), m=len(case["b"]) - 1, alpha=case["alpha"] * 1.75, a=[z - 0.21 for z in case["a"]], b=[z * 1.3 + 1.0 for z in case["b"]])
        for name, save2, load in (("binary", f2.save, OPT.PervaporationFunction.load), ("json", f2.safe_save, OPT.PervaporationFunction.safe_load)):
            path = os.path.join(root, "f_" + name)
            st, r = core.call(save2, path)
            st2, g2 = core.call(load, path)
            if st == "ok" and st2 == "ok":
                d = compare_functions(f2, g2, "function")
                if d:
                    v.append(core.viol("C17/function_reload_same_path/" + name, "a second function saved to the same path loads back as something else: %s" % d))
    finally:
        shutil.rmtree(root, ignore_errors=True)
    return core.result("roundtrip", digest=core.digest_of(case), viol=v, states=5, transitions=8, traces=1)


def judge_conditions(case):
    mix = U.get_mixture("H2O_EtOH")
    mode = tuple(case["mode"]) if case["mode"] != "vac" else "vac"
    cond = U.make_conditions(mix, case["area"], case["T"], case["amount"], case["x0"], case["basis"], mode, case["prog"])
    root = tempfile.mkdtemp(prefix="c17k_", dir=SCRATCH)
    v = []
    try:
        path = os.path.join(root, "c.json")
        st, r = core.call(cond.safe_save, path)
        if st != "ok":
            return core.result("save-raised", viol=[core.viol("C17/conditions_save_raises", "%r" % (r,))])
        st, c2 = core.call(U.Conditions.safe_load, path)
        if st != "ok":
            return core.result("load-raised", viol=[core.viol("C17/conditions_load_raises", "%r" % (c2,))])
        for name in ("membrane_area", "initial_feed_temperature", "initial_feed_amount", "permeate_temperature", "permeate_pressure"):
            if not num_eq(getattr(cond, name), getattr(c2, name)):
                v.append(core.viol("C17/conditions_roundtrip", "%s: %r vs %r" % (name, getattr(cond, name), getattr(c2, name))))
        if c2.initial_feed_composition.type != cond.initial_feed_composition.type or not num_eq(c2.initial_feed_composition.p, cond.initial_feed_composition.p):
            v.append(core.viol("C17/conditions_roundtrip", "initial feed composition %r vs %r" % (cond.initial_feed_composition, c2.initial_feed_composition)))
        cond3 = U.make_conditions(mix, case["area"] * 2.5, case["T"] + 7.0, case["amount"] * 0.3, min(case["x0"] + 0.05, 0.99), case["basis"], mode, "none")
        core.call(cond3.safe_save, path)
        st, c4 = core.call(U.Conditions.safe_load, path)
        if st == "ok" and not (num_eq(c4.membrane_area, cond3.membrane_area) and num_eq(c4.initial_feed_temperature, cond3.initial_feed_temperature)
                               and num_eq(c4.initial_feed_composition.p, cond3.initial_feed_composition.p)):
            v.append(core.viol("C17/conditions_reload_same_path", "other conditions saved to the same path load back as the earlier ones"))
    finally:
        shutil.rmtree(root, ignore_errors=True)
    return core.result("roundtrip", digest=core.digest_of(case), viol=v, states=2, transitions=2, traces=1)


# ---------------------------------------------------------------------------------------------
# history exploration on the directory tree
# ---------------------------------------------------------------------------------------------
HIST_MODELS = [
    {"kind": "ideal_iso", "mixture": "H2O_EtOH", "model": "NRTL", "mode": "vac", "prog": "none", "area": 0.05, "amount": 50.0, "dt": 0.5, "steps": 3,
     "x0": 0.1, "basis": "weight", "T": 333.15},
    {"kind": "ideal_noniso", "mixture": "MeOH_DMC", "model": "UNIQUAC", "mode": ("T", -20.0), "prog": "none", "area": 0.05, "amount": 50.0, "dt": 0.5,
     "steps": 4, "x0": 0.3, "basis": "molar", "T": 323.15},
    {"kind": "nonideal_noniso", "mixture": "H2O_EtOH", "model": "NRTL", "mode": ("p", 0.5), "prog": "poly", "area": 0.05, "amount": 50.0, "dt": 0.5,
     "steps": 3, "x0": 0.2, "basis": "weight", "T": 333.15, "curves": spaces.CURVE_CONFIGS["one"], "init_perm": None},
]
ANSWERS = [1111, 2222]
HIST_OPS = [(mi, safe, h) for mi in range(len(HIST_MODELS)) for safe in (False, True) for h in ANSWERS]
_MODELS = {}


def hist_model(mi):
    if mi not in _MODELS:
        st, pm = make_model(HIST_MODELS[mi])
        assert st == "ok", pm
        _MODELS[mi] = pm
    return _MODELS[mi]


def judge_history(case):
    install_clock()
    root = tempfile.mkdtemp(prefix="c17h_", dir=SCRATCH)
    v = []
    states = set()
    trans = 0
    try:
        saved = {}  # dir name -> (model index, is_safe)
        cur = tree(root)
        states.add(core.digest_of(cur))
        for step, opi in enumerate(case["ops"]):
            mi, safe, h = HIST_OPS[opi]
            pm = hist_model(mi)
            ClockStub.answer = h
            st, r = core.call(pm.save, membrane_path=root, is_safe=safe)
            trans += 1
            nxt = tree(root)
            states.add(core.digest_of(nxt))
            # everything that existed before must be byte-identical
            changed = [k for k in cur if k != "results" and (k not in nxt or nxt[k] != cur[k])]
            if changed:
                v.append(core.viol("C17/earlier_save_altered", "step %d (%r) altered previously saved files: %r" % (step, HIST_OPS[opi], changed[:4]), history=case["ops"]))
                break
            created = new_dirs(cur, nxt)
            stray = [k for k in nxt if k not in cur and k != "results" and not any(k.startswith("results/" + c) for c in created)]
            if st == "ok":
                if len(created) != 1 or stray:
                    v.append(core.viol("C17/save_directories", "step %d (%r) created directories %r and stray entries %r" % (step, HIST_OPS[opi], created, stray[:3]), history=case["ops"]))
                    break
                saved[created[0]] = (mi, safe)
            else:
                if [k for k in nxt if k not in cur and k != "results"]:
                    v.append(core.viol("C17/failed_save_leaves_files", "step %d (%r) raised %r but left new entries behind: %r" % (
                        step, HIST_OPS[opi], r, [k for k in nxt if k not in cur][:4]), history=case["ops"]))
                    break
            cur = nxt
        if not v:
            # every saved directory still loads back equal to the model that was saved into it; load never writes
            for d, (mi, safe) in sorted(saved.items()):
                st, loaded = core.call(U.pyvaporation.ProcessModel.load, os.path.join(root, "results", d), is_safe=safe)
                trans += 1
                if st != "ok":
                    v.append(core.viol("C17/load_raises", "directory %s of history %r does not load: %r" % (d, case["ops"], loaded)))
                    break
                diff = compare_models(hist_model(mi), loaded, safe)
                if diff:
                    v.append(core.viol("C17/history_roundtrip", "directory %s of history %r loads a different model: %s" % (d, case["ops"], diff)))
                    break
            if tree(root) != cur:
                v.append(core.viol("C17/load_writes", "loading modified the directory tree"))
    finally:
        shutil.rmtree(root, ignore_errors=True)
    return core.result("history", digest=core.digest_of([sorted(cur.items())]), viol=v, states=len(states), transitions=trans, traces=1,
                       collisions=sum(1 for i in range(len(case["ops"])) if HIST_OPS[case["ops"][i]][2] in [HIST_OPS[j][2] for j in case["ops"][:i]]),
                       sample={"ops": [HIST_OPS[i] for i in case["ops"]], "directories": sorted(k for k in cur if k.count("/") == 1)})


def main(tier, seed):
    q = tier == "quick"
    rep = core.Report(
        ID, "model_checking", tier, seed,
        rule="(i) every element of the round-trip lattices (process models of all 4 generators x modes x bases x storage mode; curves from "
             "3 sources x bases x units x modes x magnitudes; permeance functions; conditions) is saved and re-loaded once; (ii) "
             "breadth-first exploration of ALL save histories up to the stated depth over 12 operations (3 models x 2 storage modes x 2 "
             "directory-name answers) on a real directory tree, invariant after every transition; non-trivial = executed and compared; "
             "distinct = distinct final directory-tree digest / case",
        assumptions=["hash(datetime.now()) in ProcessModel._generate_process_path is the only environment nondeterminism and is owned by the "
                     "harness (module attribute stub)", "scratch directories live on /dev/shm and are removed after each case",
                     "built-in mixtures only (load looks the mixture up by name)"],
        technique="explicit-state breadth-first search over save histories on the real file-system calls with a stubbed clock; exhaustive round-trip lattice")
    U.install_fit_memo()
    install_clock()
    models = []
    for kind in traces.KINDS:
        for mode in ("vac", ("T", -20.0), ("p", 0.5), ("p", 0.0)):
            for basis in ("weight", "molar"):
                for mixn, model, dt_ in ((("H2O_EtOH", "NRTL", core.lat([0.5, 1.0], seed)[0]), ("MeOH_DMC", "UNIQUAC", 1.0 / 300), ("H2O_iPOH", "NRTL", 0.1 / 3)) if not q
                                         else (("H2O_EtOH", "NRTL", core.lat([0.5, 1.0], seed)[0]), ("H2O_EtOH", "NRTL", 1.0 / 300))):
                    spec = {"kind": kind, "mixture": mixn, "model": model, "mode": mode, "prog": "exp3" if kind.endswith("noniso") else "none",
                            "area": 0.05, "amount": 50.0, "dt": dt_, "steps": 4, "x0": core.lat([0.1, 0.3], seed)[0], "basis": basis, "T": 333.15}
                    if kind.startswith("nonideal"):
                        spec.update(curves=spaces.CURVE_CONFIGS["one"], init_perm=None)
                    models.append(spec)
    # slow runs: every state differs from its predecessor only in the 6th-8th significant digit (tiny area, big feed, short
    # steps; a programme of 2 mK per hour) - a loader that "tidies" nearly constant series is wrong exactly there
    for kind in traces.KINDS:
        for mode in ("vac", ("p", 0.5)):
            for prog in (("none", "poly_slow") if kind.endswith("noniso") else ("none",)):
                spec = {"kind": kind, "mixture": "H2O_EtOH", "model": "NRTL", "mode": mode, "prog": prog, "area": 1e-3, "amount": 100.0, "dt": 0.01,
                        "steps": 4, "x0": core.lat([0.1, 0.3], seed)[0], "basis": "weight", "T": 333.15}
                if kind.startswith("nonideal"):
                    spec.update(curves=spaces.CURVE_CONFIGS["one"], init_perm=None)
                models.append(spec)
    rt = [{"model": mdl, "is_safe": s} for mdl in models for s in (False, True)]
    rt += [{"model": mdl, "is_safe": s, "perm_units": u} for mdl in models[::3] for s in (False, True) for u in ("SI", "GPU")]
    traces.Setup(dict(models[-1], steps=1)).run(steps=1)
    core.run_space(rep, core.ListSpace("process_roundtrip", rt), judge_roundtrip)
    cur = core.Space("curve_roundtrip", {
        "source": ["permeances", "fluxes", "ideal_generator"], "mixture": ["H2O_EtOH", "MeOH_Toluene"] if q else list(U.BUILTIN_MIXTURES),
        "basis": ["weight", "molar", "mixed"], "unit": [U.Units.kg_m2_h_kPa, "SI", "GPU"], "mode": ["vac", ("T", -20.0), ("p", 0.5)],
        "scale": [1e-9, 1e-3, 1e3] if q else [1e-9, 1e-6, 1e-3, 1.0, 1e3], "T": core.lat([313.15, 353.15], seed)[:1], "xs": [[0.05, 0.4, 0.93], [0.05, 0.4, 0.4, 0.93, 0.93], [0.93, 0.4, 0.05], [0.4, 0.93, 0.05, 0.61]],  # incl. replicate points, descending and unordered curves
        "comment": [None, "a, \"quoted\" comment"]},
        lambda c: not (c["source"] != "permeances" and c["unit"] != U.Units.kg_m2_h_kPa) and not (c["source"] == "permeances" and c["mode"] != "vac"))
    core.run_space(rep, cur, judge_curve)
    fn = [{"alpha": al, "a": a, "b": b, "numpy": npy} for al in (1e-9, 2.5, 1e3) for a in ([], [0.0], [1.3, -0.4]) for b in ([2300.0], [-800.0, 90.0, 40.0]) for npy in (False, True)]
    core.run_space(rep, core.ListSpace("function_roundtrip", fn), judge_function)
    cd = core.Space("conditions_roundtrip", {"mode": ["vac", ("T", -20.0), ("p", 0.5), ("p", 0.0)], "basis": ["weight", "molar"], "area": [1e-9, 0.05, 1e3], "T": [333.15],
                                             "amount": [1e-3, 50.0], "x0": core.lat([0.1, 0.9], seed), "prog": ["none", "poly"]})
    core.run_space(rep, cd, judge_conditions)
    depth = 3 if q else 4
    for mi in range(len(HIST_MODELS)):
        hist_model(mi)  # built once in the parent; forked workers inherit
    hists = [{"ops": list(h)} for d in range(1, depth + 1) for h in itertools.product(range(len(HIST_OPS)), repeat=d)]
    m = core.run_space(rep, core.ListSpace("save_histories", hists, note="all histories up to depth %d over %d operations" % (depth, len(HIST_OPS))), judge_history)
    rep.note("max_history_depth", depth)
    rep.note("histories_with_forced_name_collision", m["outcomes"].get("history", 0) and m["extra"].get("collisions", 0))
    return rep.finish()


def replay(body):
    U.install_fit_memo()
    fn = {"process_roundtrip": judge_roundtrip, "curve_roundtrip": judge_curve, "function_roundtrip": judge_function,
          "conditions_roundtrip": judge_conditions, "save_histories": judge_history}[body["space"]]
    r = fn(body["case"])
    for v in r["viol"]:
        print("violation key=%s: %s" % (v["key"], v["msg"]))
    print("replayed: outcome=%s violations=%d" % (r["outcome"], len(r["viol"])))
    return 1 if r["viol"] else 0
