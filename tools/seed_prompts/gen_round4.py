import os, re
here = os.path.dirname(os.path.abspath(__file__))
src = open(os.path.join(here, "gen_round3.py")).read()
ns = {"__file__": os.path.join(here, "gen_round3.py")}
# reuse round-3 dictionaries without writing files
code = src.split("for pid, t in tried.items():")[0]
exec(compile(code, "gen_round3_part", "exec"), ns)
tried, extra, tmpl = ns["tried"], ns["extra"], ns["tmpl"]
tmpl = tmpl.replace("This is a THIRD round", "This is a FOURTH round").replace("/tmp/w5_", "/tmp/w6_")
more = {
'C01': "the non-ideal models converting the caller's Conditions in place; a trace-feed (< 1e-3) composition update dividing by the wrong step's mass",
'C02': "the permeate estimate clamped into [1e-5, 1-1e-5]; a process model evaluating step 0 at program(0)",
'C03': "temperature list starting at program(0); latent heats cached by (component name, temperature)",
'C04': "Raoult shortcut when g12 == g21 == 0 ignoring a12/a21 and the requested model; to_molar rounded to 10 decimals",
'C05': "facilitation helper returning 1 when the fitted permeance is numpy.isclose to 0; per-object memo of the best fit later rescaled in place",
'C06': "only-first vs only-second optional permeance handled differently in calculate_partial_fluxes; cooling-heat argument order fixed for one component only",
'C07': "non_ideal_isothermal_process relabelling the caller's molar curve points in place; separation factor skipping the conversion when the first point is a mass fraction",
'C08': "reported feed temperatures rebuilt from the programme at the end; get_permeance returning the stored (unconverted) Permeance object at an exact experiment temperature",
'C09': "MAX_ITERATIONS lowered to 50 with a silent break; fluxes 'corrected' for the permeate side when a curve is built from permeances with a permeate condition",
'C10': "(see earlier list)",
'C11': "time grid rounded to 0.0001 h with the step length taken from grid differences; fluxes evaluated at the mean of current and next programme temperature",
'C12': "truthiness test on a stated activation energy of 0; lstsq rcond=1e-5",
'C13': "shortcut for c == 0 dropping ln 10; fast path when max(c, d) == 0 in the cooling heat",
'C14': "component check before the identity shortcut; module-level factor table mutated by conversions with a component",
'C15': "infinite-dilution fast path below 1e-9; molar masses below 1 'normalised' from kg/mol",
'C16': "find_best_fit ranking candidates on data that include the zero points; fit_vle objective converting weight-basis VLE compositions in place",
'C17': "time column rounded to 10 decimals; lru_cache on the JSON reader keyed by path",
'C18': "first temperature taken from the programme (never validated); last step's balance skipped so exhaustion in the last step returns",
'C19': "numpy.isclose for 'at the experiment temperature'; default activity model resolved from the mixture's available parameters",
'C20': "UNIQUAC q_interaction filled in lazily on the shared constants object; module-level warm start of the permeate iteration",
}
for pid in tried:
    t = tried[pid] + "; " + more[pid]
    open('/tmp/seed_round4_%s.txt' % pid, 'w').write(tmpl.replace('@ID@', pid).replace('@TRIED@', t).replace('@EXTRA@', extra.get(pid, '')))
print('ok', len(tried))
