"""C20 - modelling calls are pure: no hidden state, arguments untouched, repeatable.

E3.  World = one membrane (ideal experiments, a one-curve and a two-curve set), the built-in
H2O/EtOH mixture and a synthetic one, three Conditions, two Measurements, a hand-built curve and a
process model, plus all Mixtures/Components singletons, attrs class defaults and module-level data
of the library.  Operations = ~30 public modelling calls sharing those objects.  Breadth-first
search over call histories on the real code: after every transition the canonical world must be
unchanged (then the reachable state graph is one state and the result covers histories of any
length), and every result must be bit-identical to the same call made first in a fresh
interpreter - also when it is made second or third in a history (guards state outside canon()).
"""
import itertools
import os
import subprocess
import sys
from concurrent.futures import ThreadPoolExecutor

from .. import canon, core, universe as U
from . import spaces

ID = "C20"
OPT = U.pyvaporation.optimizer.optimizer


_NR = 1.234567891e-9  # no composition of the world is a round decimal (an in-place 'clean-up' of a caller's object must show)


def build_world():
    mix = U.Mixtures.H2O_EtOH
    syn = U.get_mixture("S2")
    one = U.make_curve_set(mix, law="lawA", temps=(333.15,), name="one")
    two = U.make_curve_set(mix, law="lawA", temps=(343.15, 313.15), name="two")  # not in ascending temperature order
    molar = U.make_curve_set(mix, law="lawB", temps=(333.15,), basis="molar", name="molar")
    mem = U.make_membrane(mix, 1e-2, 1e-4, t_ref=323.15, ea1=25000.0, ea2=60000.0, extra_temps=(343.15,), curve_sets=[one, two, molar])
    mem_syn = U.make_membrane(syn, 3e-3, 2e-4, t_ref=333.15, ea1=("fit", 31000.0), ea2=("fit", 52000.0), extra_temps=(313.15, 353.15))
    pv = U.Pervaporation(membrane=mem, mixture=mix)
    pv_syn = U.Pervaporation(membrane=mem_syn, mixture=syn)
    conds = {
        "vac": U.make_conditions(mix, 0.05, 333.15, 50.0, 0.15 + _NR, "weight", "vac", "none"),
        "T": U.make_conditions(mix, 0.05, 333.15, 50.0, 0.2 + _NR, "molar", ("T", -25.0), "none"),
        "p_prog": U.make_conditions(mix, 0.05, 333.15, 50.0, 1.0 / 7.0, "weight", ("p", 0.5), "poly"),
        "syn": U.make_conditions(syn, 0.05, 333.15, 50.0, 0.3 + _NR, "weight", "vac", "none"),
        "log": U.make_conditions(mix, 0.05, 333.15, 50.0, 0.15 + _NR, "weight", "vac", "log"),
        "exp": U.make_conditions(mix, 0.05, 340.0, 50.0, 0.25 + _NR, "molar", ("T", -25.0), "exp3"),
    }
    meas = {
        # built from a throw-away copy of the set: no library call may touch a world object while the world is being built
        "first": OPT.Measurements.from_diffusion_curves_first(U.make_curve_set(mix, law="lawA", temps=(343.15, 313.15), name="scratch")),
        "second": OPT.Measurements(data=[OPT.Measurement(x=x, t=333.15, p=U.law_value("lawB", 1, x, 333.15)) for x in (0.1, 0.3, 0.5, 0.7, 0.9)]),
    }
    comps = {"w": U.Composition(p=0.15 + _NR, type="weight"), "m": U.Composition(p=0.4 + _NR, type="molar"), "list": [U.Composition(p=x, type="weight") for x in (0.1 + _NR, 1.0 / 3.0, 0.9 - _NR)],
             "m_same": U.Composition(p=0.15 + _NR, type="molar"), "pure0": U.Composition(p=0.0, type="molar"), "pure1": U.Composition(p=1.0, type="molar"), "pure1w": U.Composition(p=1.0, type="weight"),
             "list_pure": [U.Composition(p=x, type="weight") for x in (0.0, 0.5, 1.0)]}
    perms = (U.Permeance(value=2.5e-2), U.Permeance(value=3.0e-5))
    perms_si = (U.Permeance(value=3.1e-7, units=U.Units.SI), U.Permeance(value=4.2e-10, units=U.Units.SI))
    curve = U.DiffusionCurve(mixture=mix, membrane_name="M", feed_temperature=333.15, feed_compositions=[U.Composition(p=x, type="molar") for x in (0.2, 0.6)],
                             partial_fluxes=[(0.031, 0.0017), (0.052, 0.0009)], permeate_temperature=293.15)
    # the process model of the world is produced with throw-away objects (same values), for the same reason
    _mem = U.make_membrane(mix, 1e-2, 1e-4, t_ref=323.15, ea1=25000.0, ea2=60000.0, extra_temps=(343.15,))
    pm = U.Pervaporation(membrane=_mem, mixture=mix).ideal_non_isothermal_process(
        conditions=U.make_conditions(mix, 0.05, 333.15, 50.0, 0.15, "weight", "vac", "none"), number_of_steps=3, delta_hours=0.5)
    return {"mix": mix, "syn": syn, "one": one, "two": two, "molar": molar, "mem": mem, "mem_syn": mem_syn, "pv": pv, "pv_syn": pv_syn, "conds": conds,
            "meas": meas, "comps": comps, "perms": perms, "perms_si": perms_si, "curve": curve, "pm": pm}


def _solver(mode_kw, model, who="pv", comp="w"):
    def op(w):
        return w[who].calculate_partial_fluxes(feed_temperature=333.15, composition=w["comps"][comp] if who == "pv" else U.Composition(p=0.3, type="weight"),
                                               calculation_type=model, **mode_kw)
    return op


OPS = [
    ("solver vac NRTL", _solver({}, "NRTL")),
    ("solver T NRTL molar", _solver({"permeate_temperature": 293.15}, "NRTL", comp="m")),
    ("solver p NRTL", _solver({"permeate_pressure": 0.5}, "NRTL")),
    ("solver vac UNIQUAC", _solver({}, "UNIQUAC")),
    ("solver T UNIQUAC", _solver({"permeate_temperature": 293.15}, "UNIQUAC")),
    ("solver p UNIQUAC synthetic", _solver({"permeate_pressure": 0.5}, "UNIQUAC", who="pv_syn")),
    ("solver with permeances", lambda w: w["pv"].calculate_partial_fluxes(feed_temperature=318.15, composition=w["comps"]["w"], first_component_permeance=w["perms"][0],
                                                                        second_component_permeance=w["perms"][1], permeate_temperature=280.0)),
    ("solver p NRTL fine precision", lambda w: w["pv"].calculate_partial_fluxes(feed_temperature=333.15, composition=w["comps"]["w"], calculation_type="NRTL",
                                                                                permeate_pressure=0.5, precision=1e-9)),
    ("solver p NRTL other permeances", lambda w: w["pv"].calculate_partial_fluxes(feed_temperature=333.15, composition=w["comps"]["w"], calculation_type="NRTL",
                                                                                  permeate_pressure=0.5, first_component_permeance=w["perms"][0], second_component_permeance=w["perms"][1])),
    ("solver T NRTL weight", _solver({"permeate_temperature": 293.15}, "NRTL", comp="w")),
    ("solver T NRTL molar same number", _solver({"permeate_temperature": 293.15}, "NRTL", comp="m_same")),
    ("permeate composition helper", lambda w: w["pv"].calculate_permeate_composition(feed_temperature=333.15, composition=w["comps"]["m"], permeate_pressure=0.5, calculation_type="UNIQUAC")),
    ("separation factor helper", lambda w: w["pv"].calculate_separation_factor(feed_temperature=333.15, composition=w["comps"]["m"], permeate_temperature=293.15)),
    ("ideal curve", lambda w: w["pv"].ideal_diffusion_curve(feed_temperature=333.15, compositions=w["comps"]["list"], permeate_temperature=293.15)),
    ("ideal curve synthetic UNIQUAC", lambda w: w["pv_syn"].ideal_diffusion_curve(feed_temperature=340.0, compositions=w["comps"]["list"], calculation_type="UNIQUAC")),
    ("ideal iso", lambda w: w["pv"].ideal_isothermal_process(number_of_steps=3, delta_hours=0.5, conditions=w["conds"]["T"])),
    ("ideal noniso", lambda w: w["pv"].ideal_non_isothermal_process(number_of_steps=3, delta_hours=0.5, conditions=w["conds"]["p_prog"])),
    ("ideal noniso logarithmic programme", lambda w: w["pv"].ideal_non_isothermal_process(number_of_steps=3, delta_hours=0.5, conditions=w["conds"]["log"])),
    ("ideal noniso exponential programme", lambda w: w["pv"].ideal_non_isothermal_process(number_of_steps=3, delta_hours=0.5, conditions=w["conds"]["exp"])),
    ("ideal curve with pure feeds", lambda w: w["pv"].ideal_diffusion_curve(feed_temperature=333.15, compositions=w["comps"]["list_pure"], permeate_temperature=293.15)),
    ("ideal noniso synthetic", lambda w: w["pv_syn"].ideal_non_isothermal_process(number_of_steps=3, delta_hours=0.5, conditions=w["conds"]["syn"], calculation_type="UNIQUAC")),
    ("membrane permeance", lambda w: w["mem"].get_permeance(338.0, w["mix"].first_component)),
    ("membrane activation energy (regressed)", lambda w: w["mem_syn"].calculate_activation_energy(w["syn"].second_component)),
    ("membrane selectivity", lambda w: w["mem"].get_ideal_selectivity(338.0, w["mix"].first_component, w["mix"].second_component)),
    ("membrane pure flux", lambda w: w["mem"].get_estimated_pure_component_flux(338.0, w["mix"].second_component, permeate_temperature=290.0)),
    ("curve metrics", lambda w: [w["curve"].get_separation_factor, w["curve"].get_psi, w["curve"].get_selectivity, w["curve"].get_permeances, w["curve"].permeate_composition]),
    ("process metrics", lambda w: [w["pm"].get_separation_factor, w["pm"].get_psi, w["pm"].get_selectivity]),
    ("measurements from curves", lambda w: [OPT.Measurements.from_diffusion_curves_first(w["two"]), OPT.Measurements.from_diffusion_curves_second(w["molar"])]),
    ("partial pressures UNIQUAC pure molar", lambda w: [U.pyvaporation.get_partial_pressures(333.15, w["mix"], w["comps"]["pure0"], "UNIQUAC"),
                                                        U.pyvaporation.get_partial_pressures(333.15, w["mix"], w["comps"]["pure1"], "UNIQUAC"),
                                                        U.pyvaporation.get_partial_pressures(333.15, w["syn"], w["comps"]["pure1w"], "UNIQUAC")]),
    ("partial pressures NRTL pure molar", lambda w: [U.pyvaporation.get_partial_pressures(333.15, w["mix"], w["comps"]["pure0"], "NRTL"),
                                                     U.pyvaporation.get_partial_pressures(333.15, w["mix"], w["comps"]["pure1"], "NRTL")]),
    ("solver vac UNIQUAC pure molar", lambda w: w["pv"].calculate_partial_fluxes(feed_temperature=333.15, composition=w["comps"]["pure1"], calculation_type="UNIQUAC")),
    ("membrane permeance with initial permeance", lambda w: w["mem_syn"].get_permeance(338.0, w["syn"].first_component, initial_permeance=w["perms"][0])),
    ("membrane permeance with initial permeance, stated energy", lambda w: w["mem"].get_permeance(338.0, w["mix"].first_component, initial_permeance=w["perms"][0])),
    ("membrane permeance with initial permeance in SI, stated energy", lambda w: w["mem"].get_permeance(329.0, w["mix"].second_component, initial_permeance=w["perms_si"][1])),
    ("partial pressures", lambda w: U.pyvaporation.get_partial_pressures(333.15, w["syn"], U.Composition(p=0.3, type="weight"), "UNIQUAC")),
    ("fit", lambda w: U.pyvaporation.fit(w["meas"]["second"], n=1, m=0, include_zero=False, component_index=1)),
    ("fit include_zero", lambda w: U.pyvaporation.fit(w["meas"]["second"], n=1, m=0, include_zero=True, component_index=1)),
    ("find_best_fit", lambda w: U.pyvaporation.find_best_fit(w["meas"]["second"], include_zero=False, component_index=1, n=2, m=0)),
    ("find_best_fit include_zero", lambda w: U.pyvaporation.find_best_fit(w["meas"]["first"], include_zero=True, component_index=0, n=1, m=1)),
    # near-collision siblings of operations above/below: same objects, exactly one argument differs
    ("fit other component", lambda w: U.pyvaporation.fit(w["meas"]["second"], n=1, m=0, include_zero=True, component_index=0)),
    ("fit other order", lambda w: U.pyvaporation.fit(w["meas"]["second"], n=2, m=0, include_zero=False, component_index=1)),
    ("find_best_fit other component", lambda w: U.pyvaporation.find_best_fit(w["meas"]["first"], include_zero=True, component_index=1, n=1, m=1)),
    ("find_best_fit no zero", lambda w: U.pyvaporation.find_best_fit(w["meas"]["first"], include_zero=False, component_index=0, n=1, m=1)),
    ("nonideal curve one", lambda w: w["pv"].non_ideal_diffusion_curve(diffusion_curve_set=w["one"], feed_temperature=338.15, initial_feed_composition=w["comps"]["m"],
                                                                       delta_composition=0.02, number_of_steps=3, include_zero=True)),
    ("nonideal iso one molar-set", lambda w: w["pv"].non_ideal_isothermal_process(conditions=w["conds"]["T"], diffusion_curve_set=w["molar"], number_of_steps=3, delta_hours=0.5)),
    ("nonideal noniso one", lambda w: w["pv"].non_ideal_non_isothermal_process(conditions=w["conds"]["p_prog"], diffusion_curve_set=w["one"], number_of_steps=3, delta_hours=0.5,
                                                                              initial_permeances=w["perms"])),
    ("nonideal curve two include_zero", lambda w: w["pv"].non_ideal_diffusion_curve(diffusion_curve_set=w["two"], feed_temperature=328.15, initial_feed_composition=w["comps"]["w"],
                                                                                   delta_composition=0.02, number_of_steps=2, include_zero=True, n_first=1, n_second=1,
                                                                                   m_first=1, m_second=0)),
    ("nonideal noniso two", lambda w: w["pv"].non_ideal_non_isothermal_process(conditions=w["conds"]["vac"], diffusion_curve_set=w["two"], number_of_steps=3, delta_hours=0.5,
                                                                              n_first=1, n_second=1, m_first=0, m_second=1, include_zero=True)),
]
CHEAP = [i for i, o in enumerate(OPS) if not (o[0].startswith("fit") or o[0].startswith("find_best_fit") or o[0].startswith("nonideal"))]
FITTING = [i for i in range(len(OPS)) if i not in CHEAP]
_REF = {}


def run_op(world, i, keep=None):
    st, res = core.call(OPS[i][1], world)
    d = canon.result_digest(res) if st == "ok" else "raise:" + type(res).__name__ + ":" + str(res)[:80]
    if st == "ok" and keep is not None:
        # the caller owns the result: it edits every list / array of it in place (shared argument objects and built-in
        # singletons excepted); no later result may show the edit
        core.call(canon.caller_edit, res, keep)
    return d


def fresh_digest(i):
    r = subprocess.run([sys.executable, "-m", "mcv.props.c20", "fresh", str(i)], capture_output=True, text=True, env=dict(os.environ), timeout=900)
    if r.returncode != 0:
        raise RuntimeError("fresh interpreter failed: " + r.stderr[-800:])
    return r.stdout.strip().splitlines()[-1]


def judge_history(case):
    world = build_world()
    pristine = canon.ser(world)
    c0 = canon.canon(world)
    g0 = canon.canon(None)
    m0 = canon.interpreter_modes()
    h0 = canon.hidden_state()
    hidden = 0
    v = []
    states = {c0}
    digs = []
    keep = canon.reachable_ids(world, [v_ for h_ in (U.Mixtures, U.Components) for v_ in vars(h_).values()])
    for step, i in enumerate(case["ops"]):
        d = run_op(world, i, keep)
        digs.append(d)
        c = canon.canon(world)
        states.add(c)
        if canon.hidden_state() != h0:
            hidden = 1  # hidden library state (module data / class defaults): recorded; the result comparisons decide
        if c != c0:
            where = canon.diff(pristine, canon.ser(world))
            if where is None:
                where = ("interpreter-wide switches changed: %r" % (canon.interpreter_modes(),)) if canon.interpreter_modes() != m0 else (
                    "a built-in Mixtures/Components singleton changed" if canon.canon(None) != g0 else "unknown")
            v.append(core.viol("C20/world_changed", "operation %r (step %d of history %r) changed shared state: %s" % (OPS[i][0], step, [OPS[j][0] for j in case["ops"]], where),
                               history=case["ops"]))
            break
        ref = _REF.get(i)
        if ref is not None and d != ref:
            v.append(core.viol("C20/not_repeatable", "operation %r as step %d of history %r returns a result different from the same call made first in a fresh interpreter" % (
                OPS[i][0], step, [OPS[j][0] for j in case["ops"]]), history=case["ops"], got=d, fresh=ref))
            break
    return core.result("history", digest=core.digest_of([case["ops"], digs]), viol=v, states=len(states), transitions=len(digs), traces=1,
                       histories_creating_hidden_library_state=hidden, sample={"history": [OPS[j][0] for j in case["ops"]], "result_digests": digs})


def main(tier, seed):
    q = tier == "quick"
    rep = core.Report(
        ID, "model_checking", tier, seed,
        rule="breadth-first exploration of call histories over a menu of %d modelling operations sharing one set of argument objects: "
             "depth 1 over the full menu (closure: every operation must be a self-loop on the canonical world, which covers histories of any "
             "length), all ordered pairs and selected triples to guard against state outside the canonical form; non-trivial = executed and "
             "every step compared with the fresh-interpreter digest; distinct = distinct (history, result digests)" % len(OPS),
        assumptions=["canonical world = deep serialisation of all shared argument objects, Mixtures/Components singletons, attrs class defaults and "
                     "module-level data of every pyvaporation module", "each operation's reference digest comes from a fresh interpreter "
                     "(one spawn per operation)", "VERIF_SEED does not vary this check: the menu is discrete"],
        technique="explicit-state breadth-first search over call histories on the real code with canonical state hashing; fresh-interpreter differential oracle")
    with ThreadPoolExecutor(max_workers=core.WORKERS) as ex:
        for i, d in zip(range(len(OPS)), ex.map(fresh_digest, range(len(OPS)))):
            _REF[i] = d
    rep.note("fresh_interpreter_spawns", len(OPS))
    rep.note("operations_in_menu", [o[0] for o in OPS])
    raised = [OPS[i][0] for i in _REF if _REF[i].startswith("raise:")]
    rep.note("operations_that_raise", raised)
    hists = [{"ops": [i]} for i in range(len(OPS))]
    if q:
        sub = CHEAP[::2] + FITTING[:8]
        solv = [i for i in CHEAP if OPS[i][0].startswith("solver")]
        hists += [{"ops": [a, b]} for a in solv for b in solv]
        hists += [{"ops": [a, b]} for a in sub for b in sub]
        hists += [{"ops": [a, b]} for a in FITTING for b in CHEAP[1::4]] + [{"ops": [b, a]} for a in FITTING for b in CHEAP[1::4]]
    else:
        hists += [{"ops": [a, b]} for a in range(len(OPS)) for b in range(len(OPS))]
        tri = CHEAP[::3] + FITTING[:3]
        hists += [{"ops": list(h)} for h in itertools.product(tri, repeat=3)]
    seen = set()
    uniq = []
    for h in hists:
        k = tuple(h["ops"])
        if k not in seen:
            seen.add(k)
            uniq.append(h)
    core.run_space(rep, core.ListSpace("call_histories", uniq, note="depth-1 closure over the full menu + ordered pairs (+ triples in thorough)"), judge_history, chunk=2, determinism_probe=0)
    m = rep.spaces[-1]
    rep.note("histories_creating_hidden_library_state", m["counters"].get("histories_creating_hidden_library_state", 0))
    rep.note("max_history_depth", 2 if q else 3)
    return rep.finish()


def replay(body):
    r = judge_history(body["case"])
    for v in r["viol"]:
        print("violation key=%s: %s" % (v["key"], v["msg"]))
    print("replayed: outcome=%s violations=%d" % (r["outcome"], len(r["viol"])))
    return 1 if r["viol"] else 0


if __name__ == "__main__" and len(sys.argv) >= 3 and sys.argv[1] == "fresh":
    print(run_op(build_world(), int(sys.argv[2])))
