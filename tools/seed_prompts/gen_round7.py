import os
here = os.path.dirname(os.path.abspath(__file__))
src = open(os.path.join(here, "gen_round6.py")).read()
ns = {"__file__": os.path.join(here, "gen_round6.py")}
code = src.split("for pid in more6:")[0]
exec(compile(code, "gen_round6_part", "exec"), ns)
tried, extra, tmpl, more, more5, more6 = ns["tried"], ns["extra"], ns["tmpl"], ns["more"], ns["more5"], ns["more6"]
tmpl = tmpl.replace("This is a SIXTH round", "This is a SEVENTH round").replace("/tmp/w8_", "/tmp/w9_")
more7 = {
'C03': "TemperatureProgram binding its routine at construction; initial permeances taken unconverted when the first is in kg units",
'C05': "activation energy memoised on the membrane; facilitation factor computed from the permeance's number in the user's unit",
'C07': "ideal models writing the mass-fraction image back into the caller's molar Conditions; include_zero forced when the raw fraction is outside the measured range",
'C08': "get_permeance writing the converted value back into the stored experiment; pure feed points of the ideal curve through the pure-component estimate without the permeate pressure",
'C09': "unit normalisation converting the caller's Permeance objects in place; two-point flux lists taken for component-wise lists and transposed",
'C12': "convert memoised on the source object without the component; stated-energy shortcut for <= 2 experiments",
'C17': "a failed save cleaning up the colliding earlier directory; n and m derived from the coefficient list lengths on JSON load",
'C19': "per-object memo of feed-side pressures bypassing the parameter checks; both permeate values accepted when the pressure is consistent with the permeate temperature",
'C16': "__call__ remembering its last point and __mul__ copying the memo; m capped to the number of distinct temperatures",
'C18': "attrs validators switched off around a loop without try/finally; +inf let through the temperature guard",
}
style = ("\n\nRound-7 emphasis: NUMERICAL and STRUCTURAL corners rather than caches - a branch taken only for a particular NUMBER OF ITEMS (points of a curve, curves of a set, experiments, steps, coefficients), a particular ORDER of items, a particular dtype (numpy scalars, ints, lists vs tuples vs arrays), a value exactly AT a threshold, a rarely used optional argument, a rarely used public method or property, or two cooperating edits at two different sites that each look harmless alone. Variant A and variant B should use two DIFFERENT such mechanisms and touch DIFFERENT functions. Before writing a variant, make sure the ORIGINAL code really satisfies the property on your demonstration input (demo must exit 0 on the original code) - the repository already contains fixes for earlier defects, and two documented known defects (UNIQUAC gamma_2 asymmetry; permeate-pressure mode uses mass fractions in the solver and mole fractions in DiffusionCurve) do not count.")
import re
for pid in more7:
    t = tried[pid] + "; " + more[pid] + "; " + more5.get(pid, "") + "; " + more6[pid] + "; " + more7[pid]
    ex = extra.get(pid, '')
    open('/tmp/seed_round7_%s.txt' % pid, 'w').write(tmpl.replace('@ID@', pid).replace('@TRIED@', t).replace('@EXTRA@', ex + style))
print('ok', len(more7))
