"""Known finding K1 - UNIQUAC gamma_2 residual bracket is mistyped (mixture.py, gamma_2 block):

    tau_12/(th2' + th1'*tau_21) - tau_12/(th1' + th2'*tau_12)        (as written)
    tau_12/(th2' + th1'*tau_12) - tau_21/(th1' + th2'*tau_21)        (mirror image of gamma_1's bracket)

The repair breaks 5 pinned tests (the built-in UNIQUAC parameters were fitted against the mistyped
formula), so it is recorded, not repaired.  This module classifies ONE (mixture, T, x) case:

  'holds'  gamma_2 equals the mirror image of gamma_1 (relabelled mixture at 1-x) -> no defect here
  'K1'     gamma_2 equals mirror * exp(th1' q2' (typo_bracket - correct_bracket)) -> documented defect
  'other'  anything else -> a different defect, to be reported as a violation
"""
import math

from . import core, universe as U

KEY = "K1/uniquac_gamma2_bracket"
TOL = 1e-9


def coefficients(mix, t, x_molar, model):
    g = U.pyvaporation.mixtures.mixture.calculate_activity_coefficients(
        temperature=t, mixture=mix, composition=U.Composition(p=x_molar, type="molar"), calculation_type=model)
    return float(g[0]), float(g[1])


def mirror_gamma(mix, t, x_molar, model):
    """(gamma_1, gamma_2) of the relabelled twin at 1-x, mapped back: what symmetry demands."""
    g = coefficients(U.swap_mixture(mix), t, 1 - x_molar, model)
    return g[1], g[0]


def typo_log_factor(mix, t, x1):
    """th1' q2' (typo - correct): ln of the factor by which the typo changes gamma_2 (harness-side arithmetic)."""
    c1, c2 = mix.first_component.uniquac_constants, mix.second_component.uniquac_constants
    u = mix.uniquac_params
    if x1 == 0:
        x1 = 0.00001
    if x1 == 1:
        x1 = 0.99999
    x2 = 1 - x1
    s = x1 * c1.q_interaction + x2 * c2.q_interaction
    th1, th2 = x1 * c1.q_interaction / s, x2 * c2.q_interaction / s
    tau12 = math.exp(-(u.alpha_12 + u.beta_12 / t) / t)
    tau21 = math.exp(-(u.alpha_21 + u.beta_21 / t) / t)
    typo = tau12 / (th2 + th1 * tau21) - tau12 / (th1 + th2 * tau12)
    good = tau12 / (th2 + th1 * tau12) - tau21 / (th1 + th2 * tau21)
    return th1 * c2.q_interaction * (typo - good)


def classify(mix, t, x_molar):
    """returns (class, detail) for the UNIQUAC model at one point."""
    g1, g2 = coefficients(mix, t, x_molar, "UNIQUAC")
    # the typo sits in gamma_2 only: the twin's gamma_1 (untouched formula) is what our gamma_2 must be
    mirror_of_g1 = coefficients(U.swap_mixture(mix), t, 1 - x_molar, "UNIQUAC")[0]
    detail = {"gamma": (g1, g2), "gamma2_by_symmetry": mirror_of_g1}
    if not (math.isfinite(mirror_of_g1) and mirror_of_g1 > 0) or math.isnan(g2):
        return "other", detail
    if math.isfinite(g2) and core.close(g2, mirror_of_g1, TOL):
        return "holds", detail
    try:
        lf = typo_log_factor(mix, t, x_molar)
    except (OverflowError, ZeroDivisionError, ValueError):
        return "other", detail
    detail["ln_gamma2_shift_predicted_by_K1"] = lf
    lpred = math.log(mirror_of_g1) + lf
    if g2 == math.inf:
        return ("K1" if lpred > 709.0 else "other"), detail
    if g2 == 0.0:
        return ("K1" if lpred < -744.0 else "other"), detail
    if g2 > 0 and abs(math.log(g2) - lpred) <= TOL * max(1.0, abs(lpred)):
        return "K1", detail
    return "other", detail
