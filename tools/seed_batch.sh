#!/bin/bash
# tools/seed_batch.sh <prefix> <suffix-for-seeded-dir> ID...   e.g. tools/seed_batch.sh /tmp/w3_ r2 C01 C02
pre="$1"; suf="$2"; shift 2
for id in "$@"; do for v in A B; do
  echo "== $id $v"
  SEED_SUFFIX="$suf" tools/seed_accept.py ${pre}$id $id $v 2>&1 | grep -E "tests\"|demo_exit|\"exit\"|C[0-9]+/" | tr -d '\n'; echo
done; done
