#!/bin/bash
# tools/seed_queue.sh <prefix> <suffix> <logdir> [parallel]  - polls the scratch worktrees <prefix>Cxx; as soon as one holds both
# variants, both demos and NOTES.md it is handed to tools/seed_batch.sh (at most [parallel] at a time); ends when all 20 are done.
pre="$1"; suf="$2"; logs="$3"; par="${4:-3}"; mkdir -p "$logs"
cd "$(dirname "$0")/.."
while :; do
  pending=0
  for i in $(seq -w 1 20); do id=C$i; w=${pre}$id
    [ -e "$logs/$id.log" ] && continue
    pending=1
    if [ -e $w/variant_A.diff ] && [ -e $w/variant_B.diff ] && [ -e $w/demo_A.py ] && [ -e $w/demo_B.py ] && [ -e $w/NOTES.md ]; then
      if [ $(pgrep -fc "tools/seed_batch[.]sh") -lt $par ]; then
        sleep 20   # let the author finish its last edits
        nohup tools/seed_batch.sh $pre $suf $id > "$logs/$id.log" 2>&1 &
      fi
    fi
  done
  [ $pending = 0 ] && break
  sleep 15
done
