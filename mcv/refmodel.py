"""Reference stepper: the balance equations of the property statements, written once, for
"component i" generically.  Deliberately boring.  Pure-component property functions
(vaporisation heat, specific heat) are the library's own: C13 judges those.
"""


def components(mixture):
    return (mixture.first_component, mixture.second_component)


def mass_step(m, x, fluxes, area, dt):
    """(next feed mass, next mass of the first component) after one explicit step."""
    dm = [fluxes[i] * area * dt for i in (0, 1)]
    return m - (dm[0] + dm[1]), m * x - dm[0]


def latent_heat_per_kg(component, t):
    """kJ/mol -> J/kg ... in the units the library reports: kJ/mol / (g/mol) * 1000 = kJ/kg."""
    return component.get_vaporisation_heat(t) / component.molecular_weight * 1000


def evaporation_heat(mixture, t, fluxes, area, dt):
    return sum(fluxes[i] * area * dt * latent_heat_per_kg(c, t) for i, c in enumerate(components(mixture)))


def evaporation_heat_scale(mixture, t, fluxes, area, dt):
    return sum(abs(fluxes[i] * area * dt * latent_heat_per_kg(c, t)) for i, c in enumerate(components(mixture)))


def heat_capacity_per_kg(mixture, t, x):
    w = (x, 1 - x)
    return sum(w[i] * c.get_specific_heat(t) / c.molecular_weight for i, c in enumerate(components(mixture)))


def self_cooling(mixture, t, m, x, q):
    return t - q / (m * heat_capacity_per_kg(mixture, t, x))
