"""C14 - permeance unit conversion is an exact, invertible change of units.

E1: all 27 unit paths A->B->C (hence all 9 ordered pairs, identities, round trips) x components x
values, against an exact rational reference; linearity on power-of-two multiples (bit-identical);
error classes (component missing where kg/(m2 h kPa) is involved, unknown units); non-negativity.
"""
import math
from fractions import Fraction

from .. import core, universe as U

ID = "C14"
UNITS = ["kg/(m2*h*kPa)", "SI", "GPU"]
KG = "kg/(m2*h*kPa)"


def component_for(c):
    if isinstance(c, str):
        return getattr(U.Components, c)
    return U.make_component("X", c, (7.0, -1600.0, -40.0, "antoine"), (30.0, 0.1, 0.0, 0.0))


def to_si(unit, mw):
    if unit == "SI":
        return Fraction(1)
    if unit == "GPU":
        return Fraction("3.35e-10")
    return 1 / (Fraction(mw) * 3600)


def judge(case):
    comp = component_for(case["component"])
    mw = comp.molecular_weight
    a, b, c = case["path"]
    val = case["value"]
    v = []
    pa = U.Permeance(value=val, units=a)
    st, pb = core.call(pa.convert, to_units=b, component=comp)
    if st != "ok":
        return core.result("raised", viol=[core.viol("C14/valid_raises", "%s -> %s with a component raises %r" % (a, b, pb))])
    st, pc = core.call(pb.convert, to_units=c, component=comp)
    if st != "ok":
        return core.result("raised", viol=[core.viol("C14/valid_raises", "%s -> %s with a component raises %r" % (b, c, pc))])
    st, direct = core.call(pa.convert, to_units=c, component=comp)
    if st != "ok":
        return core.result("raised", viol=[core.viol("C14/valid_raises", "%s -> %s with a component raises %r" % (a, c, direct))])
    eb = float(Fraction(val) * to_si(a, mw) / to_si(b, mw))
    ec = float(Fraction(val) * to_si(a, mw) / to_si(c, mw))
    if pb.units != b or pc.units != c or direct.units != c:
        v.append(core.viol("C14/units_label", "result labelled %r/%r/%r for path %r" % (pb.units, pc.units, direct.units, case["path"])))
    if not core.close(pb.value, eb, core.ULP):
        v.append(core.viol("C14/value", "%r %s -> %s = %r, exact %r (M=%r)" % (val, a, b, pb.value, eb, mw)))
    if not core.close(direct.value, ec, core.ULP):
        v.append(core.viol("C14/value", "%r %s -> %s = %r, exact %r (M=%r)" % (val, a, c, direct.value, ec, mw)))
    if not core.close(pc.value, direct.value, core.ULP):
        v.append(core.viol("C14/path_dependent", "%s->%s->%s gives %r, direct %r" % (a, b, c, pc.value, direct.value)))
    if a == b and not core.bit_eq(pb.value, val):
        v.append(core.viol("C14/identity", "identity conversion changes %r to %r" % (val, pb.value)))
    if c == a and not core.close(pc.value, val, core.ULP):
        v.append(core.viol("C14/round_trip", "%s->%s->%s: %r returns as %r" % (a, b, a, val, pc.value)))
    if not (pb.value >= 0 and pc.value >= 0 and direct.value >= 0):
        v.append(core.viol("C14/negative", "negative permeance value produced"))
    # linearity on power-of-two multiples: exact
    if val > 0:
        for jexp in (-7, 3):
            k = 2.0 ** jexp
            st, q = core.call(U.Permeance(value=val * k, units=a).convert, to_units=b, component=comp)
            if st != "ok" or not core.bit_eq(q.value, pb.value * k):
                v.append(core.viol("C14/linearity", "converting %r x 2^%d does not give 2^%d x the converted value" % (val, jexp, jexp)))
                break
    # history on ONE Permeance object: its owner reassigns the value, then the units; the caller edits a returned result; the same
    # object is converted for another component - every answer must be the fresh-object answer
    if not v and val > 0:
        dig0 = (core.fhex(pb.value), core.fhex(pc.value))
        other = U.make_component("X", mw * 2.37 + 1.0, (7.0, -1600.0, -40.0, "antoine"), (30.0, 0.1, 0.0, 0.0))  # same NAME, other molar mass

        def snap(r):  # results are snapshotted at once: an identity conversion may return the source object itself
            return (r[0], core.fhex(r[1].value), r[1].units, r[1].value) if r[0] == "ok" else (r[0], type(r[1]).__name__, None, r[1])

        def fresh(value, units, to, co):
            return snap(core.call(U.Permeance(value=value, units=units).convert, to_units=to, component=co))

        def same(r1, r2):
            return r1[:3] == r2[:3]
        obj = U.Permeance(value=val, units=a)
        core.call(obj.convert, to_units=b, component=comp)
        steps = []
        try:
            obj.value = val * 3.0
            r = core.call(obj.convert, to_units=b, component=comp)
            steps.append(("value reassigned", snap(r), fresh(val * 3.0, a, b, comp)))
            if r[0] == "ok" and r[1] is not obj:
                r[1].value = 0.0  # the caller owns the returned object
                steps.append(("returned result edited by the caller", snap(core.call(obj.convert, to_units=b, component=comp)), fresh(val * 3.0, a, b, comp)))
            steps.append(("other component", snap(core.call(obj.convert, to_units=b, component=other)), fresh(val * 3.0, a, b, other)))
            obj.units = c
            steps.append(("units reassigned", snap(core.call(obj.convert, to_units=b, component=comp)), fresh(val * 3.0, c, b, comp)))
        except (AttributeError, TypeError):
            steps = []  # a frozen Permeance class is legitimate
        for what, got, want in steps:
            if not same(got, want):
                v.append(core.viol("C14/stale_after_object_reuse", "%s -> %s on a Permeance object that was converted before (%s): %r, a fresh object gives %r" % (
                    a, b, what, got[3], want[3])))
                break
        if (core.fhex(pb.value), core.fhex(pc.value)) != dig0:
            v.append(core.viol("C14/earlier_result_changed", "results handed out earlier changed while the source object was re-used"))
    return core.result("converted", digest=core.digest_of([core.fhex(pb.value), core.fhex(pc.value)]), viol=v,
                       sample={"b": pb.value, "c": pc.value})


def judge_error(case):
    kind = case["kind"]
    comp = component_for("H2O")
    if kind == "missing_component":
        a, b = case["pair"]
        if case.get("after_component_use"):
            # a conversion WITH a component happened earlier in this process: the component-less one must still be rejected
            for cn in ("H2O", "EtOH"):
                core.call(U.Permeance(value=2.5, units=KG).convert, to_units="SI", component=component_for(cn))
                core.call(U.Permeance(value=2.5, units="GPU").convert, to_units=KG, component=component_for(cn))
        st, r = core.call(U.Permeance(value=case["value"], units=a).convert, to_units=b)
        if st == "ok":
            return core.result("returned", viol=[core.viol("C14/missing_component_accepted", "%s -> %s without a component returns %r" % (a, b, r))])
        return core.result("raised:" + type(r).__name__, digest=core.digest_of(case))
    if kind == "no_component_needed":
        a, b = case["pair"]
        st, r = core.call(U.Permeance(value=case["value"], units=a).convert, to_units=b)
        if st != "ok":
            return core.result("raised", viol=[core.viol("C14/valid_raises", "%s -> %s needs no component but raises %r" % (a, b, r))])
        e = float(Fraction(case["value"]) * to_si(a, 1) / to_si(b, 1))
        vv = [] if core.close(r.value, e, core.ULP) else [core.viol("C14/value", "%r %s -> %s = %r, exact %r" % (case["value"], a, b, r.value, e))]
        return core.result("converted", digest=core.digest_of([case, core.fhex(r.value)]), viol=vv)
    if kind == "unknown_unit":
        a, b = case["pair"]
        st, r = core.call(U.Permeance(value=case["value"], units=a).convert, to_units=b, component=comp)
        if st == "ok":
            return core.result("returned", viol=[core.viol("C14/unknown_unit_accepted", "%r -> %r returns %r" % (a, b, r))])
        return core.result("raised:" + type(r).__name__, digest=core.digest_of(case))
    if kind == "nonnegative":
        st, r = core.call(U.Permeance, value=case["value"], units=case["pair"][0])
        if st == "ok" and not (r.value >= 0):
            return core.result("negative", viol=[core.viol("C14/negative", "Permeance(value=%r).value = %r" % (case["value"], r.value))])
        return core.result("nonnegative-or-rejected", digest=core.digest_of(case))
    raise ValueError(kind)


def main(tier, seed):
    rep = core.Report(
        ID, "exploration", tier, seed,
        rule="every (unit path A->B->C, component, value) of the finite product is converted and compared with exact rational "
             "factors; plus every error class; non-trivial = converted and judged or rejected as required; distinct = "
             "distinct converted bit patterns",
        assumptions=["values on a finite lattice 0, 1e-12..1e6"],
        technique="bounded exhaustive enumeration against an exact rational reference model")
    comps = list(U.BUILTIN_COMPONENTS) + [1.0, 500.0, 46.0684, 18.01528, 2.01588]
    vals = [0.0] + core.lat([1e-12, 1e-6, 1.0, 1e6], seed)
    paths = [(a, b, c) for a in UNITS for b in UNITS for c in UNITS]
    core.run_space(rep, core.Space("unit_paths", {"path": paths, "component": comps, "value": vals}), judge)
    cases = []
    for a in UNITS:
        for b in UNITS:
            if a != b and KG in (a, b):
                cases += [{"kind": "missing_component", "pair": (a, b), "value": x} for x in (0.0, 1.0, 3.7e-3)]
            if a != b and KG not in (a, b):
                cases += [{"kind": "no_component_needed", "pair": (a, b), "value": x} for x in (0.0, 1.0, 3.7e-3)]
    for a in UNITS:  # the identity conversion needs no component, whatever the unit
        cases += [{"kind": "no_component_needed", "pair": (a, a), "value": x} for x in (0.0, 1.0, 3.7e-3)]
    for a in UNITS:
        for b in UNITS:
            if a != b and KG in (a, b):
                cases += [{"kind": "missing_component", "pair": (a, b), "value": x, "after_component_use": True} for x in (1.0, 3.7e-3)]
    for a, b in (("SI", "barrer"), ("GPU", "mol/(m2*s*Pa)"), ("furlong", "SI"), ("kg/(m2*h*kPa)", "kg"), ("gpu", "GPU")):
        cases.append({"kind": "unknown_unit", "pair": (a, b), "value": 1.0})
    for x in (-1.0, -1e-300, -math.inf, math.nan, 0.0, 5.0):
        for u in UNITS:
            cases.append({"kind": "nonnegative", "pair": (u, u), "value": x})
    core.run_space(rep, core.ListSpace("error_classes", cases), judge_error)
    return rep.finish()


def replay(body):
    fn = judge_error if body.get("space") == "error_classes" else judge
    r = fn(body["case"])
    for v in r["viol"]:
        print("violation key=%s: %s" % (v["key"], v["msg"]))
    print("replayed: outcome=%s violations=%d" % (r["outcome"], len(r["viol"])))
    return 1 if r["viol"] else 0
