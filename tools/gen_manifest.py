#!/usr/bin/env python3
"""Regenerates MANIFEST.json from the table below (single source of truth)."""
import json, os
HERE = os.path.dirname(os.path.dirname(os.path.abspath(__file__)))
ALL = ["C%02d" % i for i in range(1, 21)]
MC = "model_checking"
EX = "exploration"
CHECKS = {
    "C01": (MC, "4.C01", "explicit-state trace conformance: every process run of a finite configuration lattice is replayed transition by transition against a reference stepper; raising runs must be justified by the stepper + real solver; ideal runs are restarted from their own non-initial states",
            "Every transition of every trace in the stated lattice satisfies the two mass balances to 1e-12 relative; shape, initial state and time grid per trace. Covers what tests cannot: all 4 kinds x modes x mixtures x models x bases x programmes, not a handful of pinned numbers.",
            "flux solver taken as given (C02/C10); find_best_fit memoised (deep copies); lattice, not continuum"),
    "C03": (MC, "4.C03", "explicit-state trace conformance: evaporation heat of every step and temperature update of every transition replayed against a reference stepper (own latent heat per component, self-cooling, programme, isothermal); iso/non-iso sibling models compared at step 0",
            "Every step and transition of every trace in the lattice satisfies the heat balance to 1e-12 relative; condensation heat present iff a permeate temperature is given; sibling models agree at step 0 (bit-identical fluxes for the ideal family).",
            "Component latent/specific heats taken as given (C13); value of the condensation heat not judged (no formula in the statement)"),
    "C18": (MC, "4.C18", "explicit-state invariant checking: admissibility invariant evaluated on every reported state of every trace of a lattice that includes coarse discretisations (first step removes 10%..1000% of the feed) and programmes crossing 0 K",
            "No returned trajectory in the explored lattice contains a state with non-positive mass, fractions outside [0,1], non-positive or non-finite temperature, or non-finite fluxes/heats, and no returned trajectory ends with a step whose own balance exhausts the feed (look-ahead by the reference stepper); raising is accepted.",
            "a raising call is always acceptable for this property; lattice, not continuum"),
    "C02": (EX, "4.C02", "bounded exhaustive enumeration of a finite lattice of flux calculations through a harness-side observing subclass (seam on the fixed-point iteration); driving-force law at the last evaluated permeate composition, vacuum law, pressure identity, self-consistency where contractive (incl. slowly contracting pressure-mode states harvested beside the neutral-cycle pressure), bit-exact power-of-two scaling",
            "Every returned flux pair in the lattice satisfies the solution-diffusion law at the permeate composition actually used (1e-12; the observed estimate is converted by its own basis label), the exact-scaling twin runs are bit-identical, and the same question asked again on the same object after a coarser-precision question still satisfies the law within the requested precision (seam-free form).",
            "get_partial_pressures taken as given (C04); pressure mode accepts mass or mole permeate fractions; raising/non-converging cases only counted (C10)"),
    "C10": (MC, "4.C10", "lasso detection on the exact float orbit of the permeate-composition iteration (explicit-state liveness): a revisited float state plus continued iteration beyond B=1e6 evaluations is a violation; aperiodic budget exhaustion is undecided; also every step of process models near equilibrium, and pressure-mode states at the harvested pressure where the map is an involution (neutral 2-cycles)",
            "No flux calculation in the lattice (dense near feed/permeate equilibrium, where attracting cycles exist) is still iterating after 1e6 evaluations, on a periodic orbit or otherwise; the dangerous states found (cycling or > 20000 evaluations) are then driven through all 8 public entry points (4 process models, 2 curve models, 2 helpers), each of which must return or raise.",
            "B=1e6 is the harness's reading of 'bounded'; memoised evaluation after proved periodicity; undecided orbits are not violations"),
    "C04": (EX, "4.C04", "bounded exhaustive enumeration of mixtures (8 built-in, 4 synthetic, lattice of synthetic NRTL/UNIQUAC parameters) x model x T x x; Gibbs-Duhem by Richardson finite differences with self-estimated truncation error; pure limits; Raoult limit; x*gamma*Psat; known-finding signature test for K1",
            "NRTL is thermodynamically consistent on the whole lattice; UNIQUAC gamma_1 is; UNIQUAC gamma_2 deviates exactly as the documented typo K1 predicts (KNOWN-FINDING) and any other deviation is a violation.",
            "FD identities at relative 1e-6 + estimated truncation error; vapour pressure taken as given"),
    "C12": (EX, "4.C12", "bounded exhaustive enumeration incl. ALL orderings of the experiment list (n<=4; rotations+reversals n=5,6) against a closed-form reference (nearest experiment, Arrhenius line, least-squares slope); query histories on one membrane object incl. editing its experiment list between queries",
            "Every query in the lattice returns the measured value at an experiment temperature and the Arrhenius-extrapolated nearest value elsewhere, independent of list order; regression recovers Ea; selectivity and pure-component flux identities hold.",
            "Permeance.convert taken as given (C14); experiments lie on one Arrhenius line"),
    "C13": (EX, "4.C13", "bounded exhaustive enumeration over components / constant triples x temperatures; Clausius-Clapeyron and dQ/dT=Cp by Richardson finite differences; additivity/antisymmetry exact",
            "Heat of vaporisation equals R T^2 dlnPsat/dT (1e-6) for all built-in components and a lattice of Antoine/Frost constants; cooling heat is additive, antisymmetric, zero on empty intervals, derivative = Cp.",
            "FD class tolerance 1e-6"),
    "C14": (EX, "4.C14", "bounded exhaustive enumeration of all 27 unit paths x components x values against exact rational conversion factors; all error classes",
            "All conversions in the lattice equal the exact rational reference (1e-12), are path-independent and invertible, bit-exactly linear on 2^j multiples; missing component / unknown unit raise; values never negative.",
            "finite value lattice"),
    "C15": (EX, "4.C15", "bounded exhaustive enumeration of a fraction lattice (dense within 1e-15 of both ends) x molar-mass pairs x direction against exact rational arithmetic; monotonicity over all lattice neighbours",
            "Conversion equals the exact rational image, round-trips, fixes end points, keeps first+second=1, obeys the ratio law and is monotone on every neighbouring lattice pair; out-of-range values rejected.",
            "finite lattice"),
    "C19": (EX, "4.C19", "bounded exhaustive enumeration of entry points x specification cells (permeate T given?, p given?) x valid argument lattice; missing-parameter classes at every model-taking entry point; existential positive control per (entry point, valid cell); zero-point curves and no-driving-force pressures included",
            "Every entry point named by the statement raises for the double specification and for missing model parameters/constants, while each accepts at least one case of every valid cell; curve without data, mixture without parameters, <2 experiments without Ea are rejected at every site.",
            "any Exception subclass counts as rejection; DiffusionCurve-from-permeances is a negative control only"),
    "C08": (MC, "4.C08", "explicit-state trace conformance: every step of every process trace replayed against the standalone flux solver at the reported state (bit-identical), plus exhaustive differential comparison of five entry points on a model-sensitive lattice",
            "Solver, helpers, one-point curve and step 0 of the ideal models report bit-identical fluxes for the requested model - also when the same object answered the other model first; the solver honours the model on both sides of the membrane (independent oracle through the seam); derived quantities are consistent; every process step equals a standalone calculation at its reported state and, for ideal models, one that takes its permeances from the membrane at the step's temperature.",
            "bit-identity demanded only where the same computation runs on the same floats; molar feeds compared with rounding-aware tolerance"),
    "C09": (EX, "4.C09", "bounded exhaustive enumeration of a round trip: real solver forward (precision 1e-12), curve-class inverse (a raising inverse where the solver returns is a violation); permeance->flux->permeance through the curve class in 3 units; two-sided known-finding signature for K2",
            "In vacuum and permeate-temperature mode the curve reports the supplied permeances back (1e-6) on the whole well-conditioned lattice, always in kg/(m2 h kPa); in pressure mode p>0 the deviation is exactly the documented mass-vs-mole-fraction mismatch K2 (KNOWN-FINDING), anything else is a violation.",
            "NRTL only; cases with driving force < 1% of the partial pressures counted, not judged"),
    "C11": (MC, "4.C11", "explicit-state simulation relation between each trace and its scaled twins (size scaling, area/time trade, single-factor step-0 twins); bit-exact for power-of-two factors",
            "For every run in the lattice the twin scaled by 2^j is bit-identical in all intensive series and exactly 2^j times in masses and heats (also in outcome: raises iff the base raises); non-power-of-two factors agree within rounding-aware tolerances.",
            "find_best_fit memoised; lattice, not continuum"),
    "C06": (MC, "4.C06", "explicit-state simulation relation between every run and its relabelled twin on four layers (thermodynamics, solver, ideal curves, ideal process traces state by state); known-finding attribution for UNIQUAC by K1 signature + symmetric-gamma_2 stub",
            "With NRTL every output of the lattice equals its relabelled twin's with roles exchanged (activity coefficients 1e-11, fluxes/traces 2e-7..2e-6 per step), separation factors and selectivities invert; with UNIQUAC the only deviations are those the documented typo K1 produces (KNOWN-FINDING), anything that persists under the symmetric stub is a violation.",
            "twins run at precision 1e-10; back-flow states and permeate fractions that round to 0/1 are not judged"),
    "C05": (MC, "4.C05", "explicit-state trace conformance of the permeance series of every non-ideal run against the returned fits (one constant factor and one lag per run), plus differential comparison of the returned fits with the public best-fit search on harness-extracted measurements and with the Arrhenius rule for single curves",
            "Every step's permeance pair in the lattice equals the returned fit at that step's feed state times a run-constant factor fixed by the initial permeances (1 when none); the fits equal the public best fit of that component's data; single-curve fits scale with the membrane's activation energy.",
            "find_best_fit taken as given (C16) and memoised; single-curve include_zero may be as passed or False"),
    "C07": (MC, "4.C07", "explicit-state simulation relation between every run and its re-based twin (mass vs mole fraction, exact rational conversion) over point entry points, curves and their metrics, measurement extraction, non-ideal curves and all 4 process models state by state",
            "Every entry point in the lattice gives the same fluxes, permeances, trajectories, metrics and measurement points for a mass-fraction input and the equivalent mole fraction; process models always report mass fractions.",
            "twins run at precision 1e-10, compared at 2e-7 (1e-10 in vacuum); flux calculations slower than 20000 evaluations are not judged"),
    "C16": (MC, "4.C16", "explicit-state breadth-first search over histories of fit / find_best_fit / fit_vle calls on shared data with canonical state hashing (caller's data + library singletons, class defaults, module state); invariant after every transition; fresh-interpreter differential oracle per operation; the harness edits every returned function in place; best-of oracle; evaluation-formula lattice",
            "Every history up to the stated depth leaves the measurements and all library state unchanged (the reachable state graph is one state with self-loops), every operation is bit-identical to the same call made first in a fresh interpreter, find_best_fit never loses against a single fit within the requested orders, fit_vle(None) never against a single method; PervaporationFunction evaluates to the stated formula and scales exactly.",
            "canonical state as described; best-of checked for explicitly requested orders"),
    "C17": (MC, "4.C17", "explicit-state breadth-first search over ALL save histories up to the stated depth (3 models x 2 storage modes x 2 harness-owned directory-name answers) on a real directory tree with a stubbed clock, invariant after every transition; exhaustive round-trip lattice for process models, curves, permeance functions and conditions",
            "No save in any explored history writes into or alters an earlier directory; each creates exactly one directory that loads back equal or raises leaving nothing behind (forced name collisions); load never writes; every round trip agrees to 1e-9 with compositions in mass basis.",
            "hash(datetime.now()) stubbed by module-attribute assignment; built-in mixtures only"),
    "C20": (MC, "4.C20", "explicit-state breadth-first search over call histories on the real code: ~50 modelling operations sharing one set of argument objects; canonical hashing of the whole world (arguments, Mixtures/Components singletons, interpreter-wide numeric switches; class defaults and module data recorded); the harness edits every returned list/array in place; depth-1 closure + ordered pairs (+ triples); fresh-interpreter differential oracle for every operation",
            "Every operation of the menu is a self-loop on the canonical world (hence histories of any length leave the shared objects and built-ins unchanged), and every result - also as 2nd/3rd call of a history - is bit-identical to the same call made first in a fresh interpreter.",
            "state outside the canonical form is covered only through the pair/triple histories and the fresh-interpreter comparison"),
}
_RECYCLED = "; object histories: a decoy run first, then every caller-owned object (Conditions, Composition, programme, membrane experiments, initial permeances, same Pervaporation object) set in place to the case - bit-identical to fresh objects"
HIST = {
    "C01": _RECYCLED, "C03": _RECYCLED + "; initial permeances in a different unit per component", "C05": _RECYCLED + "; initial permeances in every unit pair on a vanishing membrane",
    "C02": "; the caller's feed Composition / Permeance objects edited in place between two questions",
    "C04": "; activity coefficients asked directly in mass basis; Mixture object edited in place",
    "C06": "; membrane-level layer (selectivity reciprocal on one membrane object in either order, relabelled twin membrane)",
    "C07": "; molar Conditions object used with another mixture first; curve sets measured over a narrow composition range",
    "C08": "; pure feeds through the ideal curve in every mode; membranes with several experiments and regressed energies in every unit",
    "C09": "; ideal curves of 1-5 points against one-point curves; caller-owned Permeance objects shared between components and curves",
    "C10": "; the same object asked again after a calculation that did not converge",
    "C11": "; scaled twins run on the base run's own objects",
    "C12": "; one Permeance object measured for both components; regression with stated energies",
    "C13": "; integer-typed temperatures; constants edited in place or replaced after a query",
    "C14": "; history on one Permeance object (value / units reassigned, returned result edited, another component)",
    "C15": "; rejection re-checked after model calls that raised",
    "C18": "; programmes diverging at an interior grid time on a vanishing membrane",
    "C19": "; permeate pressure consistent with the permeate temperature; parameters removed after the object has answered",
    "C20": "; no round decimals in the world",
}


def main():
    checks = []
    for pid in ALL:
        if pid not in CHECKS:
            continue
        cat, ref, tech, text, note = CHECKS[pid]
        checks.append({
            "property_id": pid,
            "quick_cmd": "./check %s --tier quick" % pid,
            "thorough_cmd": "./check %s --tier thorough" % pid,
            "evidence_file": "/verif/evidence/%s.json" % pid,
            "replay_cmd_template": "./check %s --replay {path}" % pid,
            "engine": "mcv",
            "level_claimed": {"category": cat, "text": text, "design_ref": "DESIGN.md section " + ref},
            "level_note": note + HIST.get(pid, ""),
            "technique": tech,
        })
    man = {
        "version": 1,
        "setup_cmd": "true",
        "hooks": {
            "guard": "PYVAPORATION_VERIF",
            "enable": "no source hooks exist: all seams are harness-side (subclassing / module-attribute assignment); ./check exports PYVAPORATION_VERIF=1 for form only",
            "baseline_off_cmd": "cd /repo && /venv/bin/python -m pytest -ra -q -p no:cacheprovider --timeout=900 --continue-on-collection-errors",
            "source_commits": [],
            "add_only": True,
        },
        "engines": [{
            "name": "mcv", "path": "/verif/mcv",
            "serves_properties": sorted(CHECKS),
            "kind_free_text": "hand-written bounded exhaustive explorer for Python: finite-lattice enumerator (E1), trace conformance against a reference stepper (E2), explicit-state BFS over call histories with canonical state hashing (E3), lasso detector for the fixed-point iteration (E4)",
        }],
        "checks": checks,
        "not_applicable": [{"property_id": p, "reason": "not claimed: no check built"} for p in ALL if p not in CHECKS],
        "notes": "All checks import /repo's working tree directly (PYTHONPATH), nothing is built or cached. Genuine defects found: see known_findings.json and DESIGN.md section 5.",
    }
    with open(os.path.join(HERE, "MANIFEST.json"), "w") as f:
        json.dump(man, f, indent=1)
if __name__ == "__main__":
    main()
