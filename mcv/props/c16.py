"""C16 - curve fitting is pure, deterministic and returns the best candidate it tried.

E3 + E1.  World = the caller's Measurements / VLEPoints objects (plus the library's singletons,
class defaults and module-level state).  Operations = fit / find_best_fit / fit_vle calls on them.
BFS over operation histories on the real functions: after EVERY transition the canonical world
must be unchanged (so the reachable state graph is a single state with self-loops), every
operation's result must be bit-identical wherever it occurs in a history and to the same call made
first in a fresh interpreter, find_best_fit must not lose against any single fit within the
requested orders, fit_vle(None) must not lose against any single method.  Plus the evaluation
formula and scaling of PervaporationFunction on a lattice.
"""
import itertools
import math
import os
import subprocess
import sys
from concurrent.futures import ThreadPoolExecutor

from .. import canon, core, universe as U

ID = "C16"
OPT = U.pyvaporation.optimizer.optimizer
UQ = U.pyvaporation.mixtures.uniquac_fitting

DATASETS = {
    # name: (law, component index, temperatures, xs)
    "D3": ("lawA", 0, (333.15,), (0.1, 0.5, 0.9)),
    "D7": ("lawA", 0, (333.15,), tuple(U.CURVE_XS)),
    "D12": ("lawB", 1, (313.15, 343.15), (0.05, 0.2, 0.4, 0.6, 0.8, 0.95)),
    # measurements AT the positions where include_zero puts its zero points (x = 0 for the first, x = 1 for the second component)
    "D5edge0": ("lawA", 0, (333.15,), (0.0, 0.25, 0.5, 0.75, 1.0)),
    "D6edge1": ("lawB", 1, (343.15, 313.15), (0.0, 0.5, 1.0)),  # hot curve FIRST: the caller's points are not in ascending temperature order
    "D24": ("lawA", 1, (303.15, 323.15, 343.15), (0.04, 0.12, 0.25, 0.4, 0.55, 0.7, 0.85, 0.97)),
    "D40": ("lawB", 0, (303.15, 318.15, 333.15, 348.15), tuple(0.03 + 0.1 * i for i in range(10))),
}

OPS = [
    ("fit", dict(n=0, m=0, include_zero=False)),
    ("fit", dict(n=1, m=0, include_zero=True)),
    ("fit", dict(n=1, m=1, include_zero=False)),
    ("fit", dict(n=2, m=1, include_zero=True)),
    ("find_best_fit", dict(include_zero=False)),
    ("find_best_fit", dict(include_zero=True)),
    ("find_best_fit", dict(include_zero=True, n=1, m=1)),
    ("find_best_fit", dict(include_zero=False, n=2, m=1)),
    ("find_best_fit", dict(include_zero=True, n=2, m=0)),
    ("fit", dict(n=3, m=0, include_zero=False)),
    # near-collision siblings: differ from an operation above in exactly one argument, so that hidden state keyed too
    # coarsely (a memo that forgets component_index / include_zero / an order) changes a result somewhere in a pair
    ("fit", dict(n=1, m=0, include_zero=True, other_component=True)),
    ("fit", dict(n=1, m=0, include_zero=False)),
    ("find_best_fit", dict(include_zero=True, n=1, m=1, other_component=True)),
]


def build_world(name):
    law, ci, temps, xs = DATASETS[name]
    data = [OPT.Measurement(x=x, t=t, p=U.law_value(law, ci, x, t)) for t in temps for x in xs]
    return {"data": OPT.Measurements(data=data), "component_index": ci}


def apply_op(world, op):
    kind, kw = op
    kw = dict(kw)
    ci = world["component_index"]
    if kw.pop("other_component", False):
        ci = 1 - ci
    f = U.pyvaporation.fit if kind == "fit" else U.pyvaporation.find_best_fit
    return f(world["data"], component_index=ci, **kw)


def edit_in_place(f):
    for name in ("a", "b"):
        arr = getattr(f, name, None)
        if arr is None:
            continue
        try:
            for i in range(len(arr)):
                arr[i] = arr[i] * 1.5 + 0.25 + i
        except TypeError:
            pass


def loss(f, world):
    return sum((float(f(d.x, d.t)) - d.p) ** 2 for d in world["data"].data)


_REF = {}  # (dataset, op index) -> fresh-interpreter result digest; filled in the parent before forking


def fresh_digest(name, opi):
    """the same call made first in a fresh interpreter."""
    env = dict(os.environ)
    r = subprocess.run([sys.executable, "-m", "mcv.props.c16", "fresh", name, str(opi)], capture_output=True, text=True, env=env, timeout=900)
    if r.returncode != 0:
        raise RuntimeError("fresh interpreter failed: " + r.stderr[-800:])
    return r.stdout.strip().splitlines()[-1]


def judge_history(case):
    name, hist = case["dataset"], case["ops"]
    world = build_world(name)
    pristine = canon.ser(world)
    c0 = canon.canon(world)
    h0 = canon.hidden_state()
    hidden = 0
    v = []
    states = {c0}
    digests = []
    kept = []
    for step, opi in enumerate(hist):
        st, res = core.call(apply_op, world, OPS[opi])
        c = canon.canon(world)
        states.add(c)
        if canon.hidden_state() != h0:
            hidden = 1  # recorded, not a verdict: whether it matters is decided by the result comparisons below
        if c != c0:
            v.append(core.viol("C16/measurements_mutated", "after operation %d (%s %r) of history %r the caller's data (or a built-in component/mixture) changed: %s" % (
                step, OPS[opi][0], OPS[opi][1], hist, canon.diff(pristine, canon.ser(world)) or "a Mixtures/Components singleton changed"), history=hist))
            break
        if st != "ok":
            d = "raise:" + type(res).__name__
        else:
            d = canon.result_digest(res)
        digests.append(d)
        ref = _REF.get((name, opi))
        if ref is not None and d != ref:
            v.append(core.viol("C16/not_repeatable", "operation %s %r as step %d of history %r gives a result different from the same call made first in a fresh interpreter" % (
                OPS[opi][0], OPS[opi][1], step, hist), history=hist, got=d, fresh=ref))
            break
        # best-of: the search must not lose against any single fit within the requested orders
        if st == "ok" and OPS[opi][0] == "find_best_fit" and "n" in OPS[opi][1] and "other_component" not in OPS[opi][1] and step == len(hist) - 1 and len(hist) == 1:
            kw = OPS[opi][1]
            lbest = loss(res, world)
            for n in range(kw["n"] + 1):
                for m in range(kw["m"] + 1):
                    w2 = build_world(name)
                    single = U.pyvaporation.fit(w2["data"], n=n, m=m, include_zero=kw["include_zero"], component_index=w2["component_index"])
                    ls = loss(single, world)
                    if not lbest <= ls * (1 + 1e-12) + 1e-300:
                        v.append(core.viol("C16/not_best", "find_best_fit %r returns a function with squared error %r but the single fit n=%d m=%d reaches %r" % (kw, lbest, n, m, ls)))
                        break
                if v:
                    break
        if st == "ok" and not v:
            # the caller owns what it was given: it edits the returned function IN PLACE (coefficient arrays included); no
            # later result may carry that edit, and no later call may change this object again
            edit_in_place(res)
            kept.append((step, res, canon.result_digest(res)))
    if not v:
        for step, res, dg in kept:
            if canon.result_digest(res) != dg:
                v.append(core.viol("C16/earlier_result_changed", "the function returned by step %d of history %r (then edited by the caller) was changed by a later call" % (step, hist), history=hist))
                break
    return core.result("history", digest=core.digest_of([name, hist, digests]), viol=v, states=len(states), transitions=len(digests) + (1 if v else 0),
                       traces=1, histories_creating_hidden_library_state=hidden, sample={"dataset": name, "history": [OPS[i][0] for i in hist], "result_digests": digests})


# ---------------------------------------------------------------------------------------------
def bestof_data(spec):
    """multi-temperature data that no PervaporationFunction of the requested orders represents exactly
    (deterministic relative 'noise'), so the losses of the candidate orders are all distinct and unordered."""
    if spec[0] == "replicates":
        # replicate measurements: the same composition and temperature measured twice with DIFFERENT results (and once more, equal)
        _tag, ci, t, flat, k = spec
        pts = [OPT.Measurement(x=x, t=t, p=flat) for x in (0.1, 0.3, 0.7, 0.9)]
        pts += [OPT.Measurement(x=0.5, t=t, p=flat * 3.0), OPT.Measurement(x=0.5, t=t, p=flat), OPT.Measurement(x=0.3, t=t, p=flat * (1.0 + 0.2 * (k + 1)))]
        return OPT.Measurements(data=pts)
    law, ci, temps, xs, k = spec
    pts = []
    i = 0
    for t in temps:
        for x in xs:
            i += 1
            pts.append(OPT.Measurement(x=x, t=t, p=U.law_value(law, ci, x, t) * (1 + 0.09 * math.sin(12.9898 * i * (k + 1)) + 0.04 * math.cos(4.1 * i + k))))
    return OPT.Measurements(data=pts)


def judge_bestof(case):
    data = bestof_data(case["data"])
    ci = case["data"][1]
    pristine = canon.ser(data)
    st, best = core.call(U.pyvaporation.find_best_fit, data, include_zero=case["include_zero"], component_index=ci, n=case["n"], m=case["m"])
    if st != "ok":
        return core.result("raised", viol=[core.viol("C16/best_fit_raises", "%r" % (best,))])
    v = []
    if canon.ser(data) != pristine:
        v.append(core.viol("C16/measurements_mutated", "find_best_fit changed its data: %s" % canon.diff(pristine, canon.ser(data))))

    def sq(f):
        return sum((float(f(d.x, d.t)) - d.p) ** 2 for d in data.data)

    lbest = sq(best)
    singles = {}
    for n in range(case["n"] + 1):
        for m in range(case["m"] + 1):
            f = U.pyvaporation.fit(bestof_data(case["data"]), n=n, m=m, include_zero=case["include_zero"], component_index=ci)
            singles[(n, m)] = sq(f)
    worst = min(singles.items(), key=lambda kv: kv[1])
    if not lbest <= worst[1] * (1 + 1e-12) + 1e-300:
        v.append(core.viol("C16/not_best", "find_best_fit(n=%d, m=%d, include_zero=%r) returns squared error %r (orders n=%d m=%d) but the single fit n=%d m=%d reaches %r" % (
            case["n"], case["m"], case["include_zero"], lbest, best.n, best.m, worst[0][0], worst[0][1], worst[1]), losses={"%d,%d" % k: e for k, e in singles.items()}))
    nonmono = sum(1 for n in range(case["n"] + 1) for m in range(1, case["m"]) if singles[(n, m)] >= singles[(n, m - 1)] and singles[(n, m + 1)] < singles[(n, m)])
    return core.result("best-of", digest=core.digest_of([case, lbest]), viol=v, states=1, transitions=1 + len(singles), traces=1, rows_with_non_monotone_loss=nonmono,
                       sample={"best_orders": (best.n, best.m), "loss": lbest, "candidates": len(singles)})


def vle_points(name):
    return UQ.VLEPoints.from_csv(os.path.join(U.REPO, "tests", "VLE_data", "binary", name + ".csv"))


def judge_vle(case):
    for first in case.get("history_before", []):
        # an earlier best-of fit on ANOTHER data set in the same process must not change what this one returns
        core.call(UQ.fit_vle, vle_points(first), None)
    pts = vle_points(case["dataset"])
    pristine = canon.ser(pts)
    c0 = canon.canon(pts)
    v = []
    methods = case["methods"]
    errs = {}
    n = 0
    for meth in methods + [None]:
        st, res = core.call(UQ.fit_vle, pts, meth)
        n += 1
        if canon.canon(pts) != c0:
            v.append(core.viol("C16/vle_points_mutated", "fit_vle(method=%r) changed its data or library state: %s" % (meth, canon.diff(pristine, canon.ser(pts)))))
            break
        if st != "ok":
            errs[meth] = None
            continue
        errs[meth] = float(UQ.objective(data=pts, params=[res.alpha_12, res.alpha_21, res.beta_12, res.beta_21, res.z]))
        if meth == case.get("repeat"):
            st2, res2 = core.call(UQ.fit_vle, pts, meth)
            n += 1
            if st2 != "ok" or canon.result_digest(res2) != canon.result_digest(res):
                v.append(core.viol("C16/vle_not_repeatable", "fit_vle(method=%r) repeated on equal data gives different parameters" % meth))
    if not v and case.get("fresh_objective") is not None and errs.get(None) is not None:
        if not core.close(errs[None], case["fresh_objective"], 1e-12):
            v.append(core.viol("C16/vle_depends_on_earlier_fit", "fit_vle(None) on %s reaches objective %r after a best-of fit on %r, but %r when made first" % (
                case["dataset"], errs[None], case["history_before"], case["fresh_objective"])))
    if not v and errs.get(None) is not None and case.get("complete"):
        # fit_vle rounds z through int(): evaluate every candidate through the returned parameter object
        for meth in methods:
            if errs[meth] is not None and not errs[None] <= errs[meth] * (1 + 1e-9) + 1e-12:
                v.append(core.viol("C16/vle_not_best", "fit_vle(None) reaches objective %r but method %s alone reaches %r" % (errs[None], meth, errs[meth])))
                break
    return core.result("vle", digest=core.digest_of([case, errs]), viol=v, states=1, transitions=n, traces=1, sample={"objectives": {str(k): e for k, e in errs.items()}})


# ---------------------------------------------------------------------------------------------
def judge_function(case):
    al, a, b = case["alpha"], list(case["a"]), list(case["b"])
    arr = [al] + a + b
    n, m = len(a), len(b) - 1
    st, f = core.call(OPT.PervaporationFunction.from_array, array=arr, n=n, m=m)
    if st != "ok":
        return core.result("raised", viol=[core.viol("C16/from_array_raises", "%r" % (f,))])
    v = []
    for x in case["xs"]:
        for t in case["ts"]:
            ref = al * math.exp(sum(a[i] * x ** (i + 1) for i in range(len(a))) - sum(b[i] * x ** i for i in range(len(b))) / t)
            got = float(f(x, t))
            if not core.close(got, ref, 1e-12, 1e-300):
                v.append(core.viol("C16/function_value", "f(%r, %r) = %r, alpha*exp(sum a_i x^(i+1) - sum b_i x^i / T) = %r" % (x, t, got, ref), coefficients=arr))
                break
            for c in case["cs"]:
                g = f * c
                gv = float(g(x, t))
                exact = math.log2(abs(c)).is_integer()
                if (exact and not core.bit_eq(gv, c * got)) or (not exact and not core.close(gv, c * got, 1e-12, 1e-300)):
                    v.append(core.viol("C16/function_scaling", "(f*%r)(%r, %r) = %r, %r * f = %r" % (c, x, t, gv, c, c * got)))
                    break
                if float(f(x, t)) != got:
                    v.append(core.viol("C16/function_scaling", "multiplying a function by a constant changed the original function"))
                    break
            if v:
                break
        if v:
            break
    return core.result("function", digest=core.digest_of(case), viol=v)


def main(tier, seed):
    q = tier == "quick"
    rep = core.Report(
        ID, "model_checking", tier, seed,
        rule="breadth-first exploration of operation histories (all histories up to the stated depth over a 10-operation menu per "
             "data set) on the real fit / find_best_fit / fit_vle; a state is the canonical hash of the caller's data plus library "
             "globals; the invariant is evaluated after every transition; non-trivial = history executed and every step compared "
             "with the fresh-interpreter digest; distinct = distinct (data set, history, result digests)",
        assumptions=["canonical state = deep serialisation of the caller's objects, Mixtures/Components singletons, attrs class defaults and "
                     "module-level data of every pyvaporation module; interpreter state outside that is covered by the fresh-interpreter "
                     "comparison of every operation", "best-of is checked for explicitly requested maximum orders"],
        technique="explicit-state breadth-first search over call histories on the real functions with canonical state hashing; fresh-interpreter differential oracle")
    names = ["D3", "D7", "D12", "D5edge0", "D6edge1"] if q else list(DATASETS)
    depth = 2 if q else 3
    # reference digests from fresh interpreters, one spawn per (data set, operation)
    jobs = [(nm, i) for nm in names for i in range(len(OPS))]
    with ThreadPoolExecutor(max_workers=core.WORKERS) as ex:
        for (nm, i), d in zip(jobs, ex.map(lambda j: fresh_digest(*j), jobs)):
            _REF[(nm, i)] = d
    rep.note("fresh_interpreter_spawns", len(jobs))
    hist = []
    for nm in names:
        menu = list(range(len(OPS))) if (nm == "D7" or (nm == "D12" and not q)) else ([1, 3, 5, 6, 10, 11, 12] if nm in ("D3", "D12", "D5edge0", "D6edge1") else list(range(0, len(OPS), 2)) + [10, 11, 12])
        for dpt in range(1, depth + 1):
            if dpt == 3 and nm not in ("D3", "D7"):
                continue
            for h in itertools.product(menu if dpt < 3 else menu[:6], repeat=dpt):
                hist.append({"dataset": nm, "ops": list(h)})
    m = core.run_space(rep, core.ListSpace("fit_histories", hist, note="all operation sequences up to depth %d" % depth), judge_history, chunk=4, determinism_probe=0)
    rep.note("max_history_depth", depth)
    rep.note("operations_in_menu", len(OPS))
    rep.note("histories_creating_hidden_library_state", m["extra"].get("histories_creating_hidden_library_state", 0))
    bo = []
    T4 = (313.15, 323.15, 333.15, 343.15)
    T5 = (303.15, 318.15, 333.15, 348.15, 363.15)
    for k in range(3 if q else 10):
        for law, ci in (("lawA", 0), ("lawB", 1)):
            bo.append({"data": (law, ci, T4, (0.08, 0.33, 0.45, 0.95), k), "n": 1, "m": 3, "include_zero": False})
            if not q:
                bo.append({"data": (law, ci, T5, (0.06, 0.32, 0.74), k), "n": 2, "m": 3, "include_zero": bool(k % 2)})
                bo.append({"data": (law, ci, T4, (0.1, 0.5, 0.9), k), "n": 0, "m": 3, "include_zero": True})
    for k in range(2 if q else 4):
        for ci in (0, 1):
            bo.append({"data": ("replicates", ci, 333.15, 1.0 + 0.5 * k, k), "n": 2, "m": 0, "include_zero": False})
    mb = core.run_space(rep, core.ListSpace("best_of_search", bo), judge_bestof, chunk=1)
    rep.note("best_of_rows_with_non_monotone_loss_in_m", mb["extra"].get("rows_with_non_monotone_loss", 0))
    vsets = ["MeOH_DMC", "EtOH_ETBE"] if q else ["MeOH_DMC", "EtOH_ETBE", "H2O_AceticAcid", "MeOH_MTBE", "MeOH_Toluene", "H2O_MeOH", "H2O_iPOH", "H2O_EtOH"]
    vcases = []
    for vs in vsets:
        if q:
            vcases.append({"dataset": vs, "methods": ["COBYLA", "Powell", "Nelder-Mead"], "repeat": "COBYLA", "complete": False})
        else:
            vcases.append({"dataset": vs, "methods": list(UQ.FITTING_ALGS), "repeat": "Powell", "complete": True})
    if q:
        vcases.append({"dataset": "MeOH_DMC", "methods": list(UQ.FITTING_ALGS), "repeat": None, "complete": True})
        vcases.append({"dataset": "MeOH_Toluene", "methods": list(UQ.FITTING_ALGS), "repeat": None, "complete": True})
    mv = core.run_space(rep, core.ListSpace("vle_fits", vcases), judge_vle, chunk=1, determinism_probe=0)
    # histories across data sets: the best-of fit of set B made after the best-of fit of set A equals the one made first.
    # The reference objective comes from a fresh interpreter.  (quick: two small sets; thorough: every set after the largest one)
    def fresh_vle(name):
        r = subprocess.run([sys.executable, "-m", "mcv.props.c16", "freshvle", name], capture_output=True, text=True, env=dict(os.environ), timeout=3000)
        if r.returncode != 0:
            raise RuntimeError("fresh interpreter failed: " + r.stderr[-800:])
        return float(r.stdout.strip().splitlines()[-1])
    pairs = [("MeOH_DMC", "MeOH_Toluene"), ("MeOH_Toluene", "MeOH_DMC")] if q else [("H2O_EtOH", b) for b in vsets if b != "H2O_EtOH"] + [("MeOH_Toluene", "H2O_iPOH")]
    targets = sorted({b for _a, b in pairs})
    with ThreadPoolExecutor(max_workers=core.WORKERS) as ex:
        fresh = dict(zip(targets, ex.map(fresh_vle, targets)))
    hcases = [{"dataset": b, "methods": [], "repeat": None, "complete": False, "history_before": [a], "fresh_objective": fresh[b]} for a, b in pairs]
    core.run_space(rep, core.ListSpace("vle_histories", hcases), judge_vle, chunk=1, determinism_probe=0)
    fcases = []
    for al in (1e-3, 2.5, 40.0):
        for a in ((), (1.3,), (1.3, -0.4), (0.2, -1.1, 0.7)):
            for b in ((2300.0,), (2300.0, 150.0), (-800.0, 90.0, 40.0), (0.0, 0.0, 0.0, 12.0)):
                fcases.append({"alpha": al, "a": a, "b": b, "xs": core.lat([0.0, 0.07, 0.5, 0.93, 1.0], seed), "ts": core.lat([293.15, 333.15, 373.15], seed),
                               "cs": [0.5, 4.0, 3.0, 1e-3]})
    core.run_space(rep, core.ListSpace("function_lattice", fcases), judge_function)
    return rep.finish()


def replay(body):
    fn = {"fit_histories": judge_history, "vle_fits": judge_vle, "vle_histories": judge_vle, "function_lattice": judge_function, "best_of_search": judge_bestof}[body["space"]]
    r = fn(body["case"])
    for v in r["viol"]:
        print("violation key=%s: %s" % (v["key"], v["msg"]))
    print("replayed: outcome=%s violations=%d" % (r["outcome"], len(r["viol"])))
    return 1 if r["viol"] else 0


if __name__ == "__main__" and len(sys.argv) >= 3 and sys.argv[1] == "freshvle":
    _p = vle_points(sys.argv[2])
    _r = UQ.fit_vle(_p, None)
    print(repr(float(UQ.objective(data=_p, params=[_r.alpha_12, _r.alpha_21, _r.beta_12, _r.beta_21, _r.z]))))

if __name__ == "__main__" and len(sys.argv) >= 4 and sys.argv[1] == "fresh":
    _w = build_world(sys.argv[2])
    _st, _res = core.call(apply_op, _w, OPS[int(sys.argv[3])])
    print(canon.result_digest(_res) if _st == "ok" else "raise:" + type(_res).__name__)
